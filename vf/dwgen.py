"""G3 -- pure-Python writer of ELF relocatable files with DWARF and symbol tables.

The bytes are produced from an in-memory model (Forest / Unit / Die / symbol list); the model
IS the ground truth.  No assembler, no relocations.  Supports ELF32/ELF64, LSB/MSB, any
e_machine, DWARF 2-5 unit headers, shared or private abbreviation tables, all common forms,
.debug_str / .debug_line_str, .debug_loc / .debug_loclists, .debug_ranges.
"""
import struct

# ---- DWARF constants (subset; numeric values from the DWARF standard)
DW_TAG = dict(array_type=0x01, class_type=0x02, entry_point=0x03, enumeration_type=0x04, formal_parameter=0x05, imported_declaration=0x08,
              label=0x0a, lexical_block=0x0b, member=0x0d, pointer_type=0x0f, reference_type=0x10, compile_unit=0x11, string_type=0x12,
              structure_type=0x13, subroutine_type=0x15, typedef=0x16, union_type=0x17, unspecified_parameters=0x18, variant=0x19,
              common_block=0x1a, inheritance=0x1c, inlined_subroutine=0x1d, module=0x1e, subrange_type=0x21, base_type=0x24, const_type=0x26,
              enumerator=0x28, namespace=0x39, subprogram=0x2e, template_type_parameter=0x2f, template_value_parameter=0x30, variable=0x34,
              volatile_type=0x35, restrict_type=0x37, partial_unit=0x3c, imported_unit=0x3d, unspecified_type=0x3b, type_unit=0x41, skeleton_unit=0x4a)
DW_AT = dict(sibling=0x01, location=0x02, name=0x03, ordering=0x09, byte_size=0x0b, bit_size=0x0d, stmt_list=0x10, low_pc=0x11, high_pc=0x12,
             language=0x13, discr_value=0x16, visibility=0x17, import_=0x18, string_length=0x19, comp_dir=0x1b, const_value=0x1c,
             containing_type=0x1d, default_value=0x1e, inline=0x20, is_optional=0x21, lower_bound=0x22, producer=0x25, prototyped=0x27,
             return_addr=0x2a, start_scope=0x2c, bit_stride=0x2e, upper_bound=0x2f, abstract_origin=0x31, accessibility=0x32,
             address_class=0x33, artificial=0x34, calling_convention=0x36, count=0x37, data_member_location=0x38, decl_column=0x39,
             decl_file=0x3a, decl_line=0x3b, declaration=0x3c, encoding=0x3e, external=0x3f, frame_base=0x40, identifier_case=0x42,
             segment=0x46, specification=0x47, static_link=0x48, type=0x49, use_location=0x4a, virtuality=0x4c, vtable_elem_location=0x4d,
             allocated=0x4e, associated=0x4f, data_location=0x50, byte_stride=0x51, entry_pc=0x52, ranges=0x55, call_line=0x59,
             macro_info=0x43, decimal_sign=0x5e, endianity=0x65, linkage_name=0x6e, alignment=0x88, defaulted=0x8b, str_offsets_base=0x72, addr_base=0x73,
             rnglists_base=0x74, loclists_base=0x8c, call_column=0x57, call_file=0x58, description=0x5a, decimal_scale=0x5c, small=0x5d,
             digit_count=0x5f, picture_string=0x60, mutable=0x61, threads_scaled=0x62, explicit=0x63, object_pointer=0x64, elemental=0x66,
             pure=0x67, recursive=0x68, main_subprogram=0x6a, data_bit_offset=0x6b, const_expr=0x6c, enum_class=0x6d, noreturn=0x87,
             # vendor attributes (codes above 0xff; several share their low byte with a standard attribute)
             MIPS_linkage_name=0x2007, GNU_vector=0x2107, GNU_all_tail_call_sites=0x2116, GNU_all_call_sites=0x2117, GNU_pubnames=0x2134,
             GNU_macros=0x2119, GNU_deleted=0x211a, GNU_locviews=0x2137, GNU_entry_view=0x2138)
DW_FORM = dict(addr=0x01, block2=0x03, block4=0x04, data2=0x05, data4=0x06, data8=0x07, string=0x08, block=0x09, block1=0x0a, data1=0x0b,
               flag=0x0c, sdata=0x0d, strp=0x0e, udata=0x0f, ref_addr=0x10, ref1=0x11, ref2=0x12, ref4=0x13, ref8=0x14, ref_udata=0x15,
               indirect=0x16, sec_offset=0x17, exprloc=0x18, flag_present=0x19, line_strp=0x1f, implicit_const=0x21, data16=0x1e,
               ref_sig8=0x20,
               # DWARF 5 indexed forms (string offsets table, address table, range / location list offset tables)
               strx=0x1a, addrx=0x1b, ref_sup4=0x1c, strp_sup=0x1d, loclistx=0x22, rnglistx=0x23, ref_sup8=0x24,
               strx1=0x25, strx2=0x26, strx3=0x27, strx4=0x28, addrx1=0x29, addrx2=0x2a, addrx3=0x2b, addrx4=0x2c)
DW_ATE = dict(address=1, boolean=2, complex_float=3, float=4, signed=5, signed_char=6, unsigned=7, unsigned_char=8, UTF=0x10, ASCII=0x12, UCS=0x11)
DW_OP = dict(addr=0x03, deref=0x06, const1u=0x08, const1s=0x09, const2u=0x0a, const2s=0x0b, const4u=0x0c, const4s=0x0d, const8u=0x0e,
             const8s=0x0f, constu=0x10, consts=0x11, dup=0x12, drop=0x13, over=0x14, pick=0x15, swap=0x16, rot=0x17, abs=0x19, and_=0x1a,
             minus=0x1c, plus=0x22, plus_uconst=0x23, skip=0x2f, bra=0x28, lit0=0x30, lit5=0x35, lit31=0x4f, reg0=0x50, reg5=0x55, reg31=0x6f,
             breg0=0x70, breg7=0x77, breg31=0x8f, regx=0x90, fbreg=0x91, bregx=0x92, piece=0x93, deref_size=0x94, nop=0x96,
             call_frame_cfa=0x9c, bit_piece=0x9d, implicit_value=0x9e, stack_value=0x9f, call2=0x98, call4=0x99,
             implicit_pointer=0xa0, entry_value=0xa3, const_type=0xa4, regval_type=0xa5, deref_type=0xa6, convert=0xa8, reinterpret=0xa9,
             GNU_implicit_pointer=0xf2, GNU_entry_value=0xf3, GNU_const_type=0xf4, GNU_regval_type=0xf5, GNU_deref_type=0xf6,
             GNU_convert=0xf7, GNU_reinterpret=0xf9)


def uleb(v):
    out = bytearray()
    while True:
        b = v & 0x7f
        v >>= 7
        if v:
            out.append(b | 0x80)
        else:
            out.append(b)
            return bytes(out)


def sleb(v):
    out = bytearray()
    while True:
        b = v & 0x7f
        v >>= 7
        if (v == 0 and not (b & 0x40)) or (v == -1 and (b & 0x40)):
            out.append(b)
            return bytes(out)
        out.append(b | 0x80)


class Die:
    def __init__(self, tag, attrs=None, children=None, has_children=None):
        self.tag = tag if isinstance(tag, int) else DW_TAG[tag]
        self.attrs = list(attrs or [])      # [(at, form, value)]  at/form by name or number
        self.children = list(children or [])
        # abbreviation's children flag; None = has children iff non-empty
        self.has_children = has_children
        self.offset = None
        self.unit = None
        self.parent = None

    def flag(self):
        return bool(self.children) if self.has_children is None else self.has_children

    def at(self, name):
        code = name if isinstance(name, int) else DW_AT[name]
        for a, f, v in self.attrs:
            if atcode(a) == code:
                return (a, f, v)
        return None


def atcode(a):
    return a if isinstance(a, int) else DW_AT[a]


def formcode(f):
    return f if isinstance(f, int) else DW_FORM[f]


class Unit:
    def __init__(self, root, version=4, addr_size=8, abbrev_table=None, unit_type=None):
        self.root, self.version, self.addr_size = root, version, addr_size
        self.abbrev_table = abbrev_table     # id of a shared table, None = private
        self.unit_type = unit_type           # DWARF 5 unit type byte; default from the root tag
        self.offset = None
        self.abbrev_offset = None


class Forest:
    def __init__(self, units, machine=62, elfclass=64, big=False, symbols=None, loc=None, loclists=None, ranges=None):
        self.units = units
        self.machine, self.elfclass, self.big = machine, elfclass, big
        self.symbols = symbols or []         # [(name bytes, value, size, info, other, shndx)]
        self.debug_loc = loc or b""
        self.debug_loclists = loclists or b""
        self.debug_ranges = ranges or b""
        self.debug_line = b""
        self.debug_rnglists = b""
        self.debug_macinfo = b""
        self.strx_table = []                 # .debug_str_offsets: strings by index (DW_FORM_strx*); base offset STRX_BASE
        self.addr_table = []                 # .debug_addr: addresses by index (DW_FORM_addrx*); base offset ADDRX_BASE
        self.strtab = {}                     # .debug_str
        self.line_strtab = {}
        self.abbrev_tables = {}              # table id -> {key: code}; filled by layout
        self.abbrev_decl_seed = None         # int: declare the abbreviations of each table in a shuffled order
        self.abbrev_code_style = None        # None (small codes), "high" (around 128), "huge" (16000 and up)

    def all_dies(self):
        for u in self.units:
            if u.root is not None:
                yield from walk(u.root)


STRX_BASE = 8      # what DW_AT_str_offsets_base of a unit using strx forms has to say (one table per file, right after its header)
ADDRX_BASE = 8     # likewise DW_AT_addr_base


def walk(d):
    yield d
    for c in d.children:
        yield from walk(c)


class Writer:
    def __init__(self, forest):
        self.f = forest
        self.end = ">" if forest.big else "<"
        self.str_data = bytearray()
        self.line_str_data = bytearray()

    def p(self, fmt, *a):
        return struct.pack(self.end + fmt, *a)

    def strp(self, s, line=False):
        tab, data = (self.f.line_strtab, self.line_str_data) if line else (self.f.strtab, self.str_data)
        if s not in tab:
            tab[s] = len(data)
            data.extend(s + b"\0")
        return tab[s]

    # ------------------------------------------------------------ abbreviations
    def abbrev_key(self, d):
        forms = []
        for a, f, v in d.attrs:
            fc = formcode(f if not (isinstance(v, tuple) and f == "indirect") else "indirect")
            if fc == DW_FORM["implicit_const"]:
                forms.append((atcode(a), fc, v))
            else:
                forms.append((atcode(a), fc, None))
        return (d.tag, d.flag(), tuple(forms))

    def assign_abbrevs(self):
        tables = {}
        order = {}
        for ui, u in enumerate(self.f.units):
            tid = u.abbrev_table if u.abbrev_table is not None else ("private", ui)
            u._tid = tid
            tab = tables.setdefault(tid, {})
            for d in (walk(u.root) if u.root is not None else ()):
                k = self.abbrev_key(d)
                if k not in tab:
                    # sparse, non-monotonic codes to exercise the abbreviation lookup
                    code = len(tab) * 3 + 1 if (list(tables).index(tid) & 1) else len(tab) + 1
                    style = getattr(self.f, "abbrev_code_style", None)
                    if style == "high":        # codes on both sides of 128: one- and two-byte ULEB128
                        code = 120 + len(tab) * 5
                    elif style == "huge":      # two- and three-byte codes
                        code = 16000 + len(tab) * 997
                    tab[k] = code
                d._abbrev = tab[k]
                d.unit = u
        self.tables = tables
        self.f.abbrev_tables = tables
        data = bytearray()
        self.table_offsets = {}
        for tid, tab in tables.items():
            self.table_offsets[tid] = len(data)
            items = list(tab.items())
            if getattr(self.f, "abbrev_decl_seed", None) is not None:
                # declarations need not come in ascending code order
                import random as _random
                _random.Random(self.f.abbrev_decl_seed).shuffle(items)
            for (tag, ch, forms), code in items:
                data += uleb(code) + uleb(tag) + bytes([1 if ch else 0])
                for at, fc, ic in forms:
                    data += uleb(at) + uleb(fc)
                    if fc == DW_FORM["implicit_const"]:
                        data += sleb(ic)
                data += b"\0\0"
            data += b"\0"
        for u in self.f.units:
            u.abbrev_offset = self.table_offsets[u._tid]
        return bytes(data)

    # ------------------------------------------------------------------- forms
    def enc_value(self, u, f, v, resolve):
        """Encoded bytes of value V in form F.  RESOLVE: offsets of DIEs known?"""
        fc = formcode(f)
        F = DW_FORM
        if fc == F["indirect"]:
            actual, val = v
            return uleb(formcode(actual)) + self.enc_value(u, actual, val, resolve)
        if fc == F["implicit_const"]:
            return b""
        if fc == F["flag_present"]:
            return b""
        if fc == F["flag"]:
            return bytes([1 if v else 0]) if not isinstance(v, int) or isinstance(v, bool) else bytes([v & 0xff])
        if fc == F["data1"]:
            return self.p("B", v & 0xff)
        if fc == F["data2"]:
            return self.p("H", v & 0xffff)
        if fc == F["data4"]:
            return self.p("I", v & 0xffffffff)
        if fc == F["data8"]:
            return self.p("Q", v & 0xffffffffffffffff)
        if fc == F["data16"]:
            return bytes(v)
        if fc == F["udata"]:
            return uleb(v)
        if fc == F["sdata"]:
            return sleb(v)
        if fc == F["string"]:
            return bytes(v) + b"\0"
        if fc == F["strp"]:
            return self.p("I", self.strp(bytes(v)))
        if fc == F["line_strp"]:
            return self.p("I", self.strp(bytes(v), True))
        if fc == F["addr"]:
            return self.p("Q" if u.addr_size == 8 else "I", v)
        if fc in (F["strx"], F["strx1"], F["strx2"], F["strx3"], F["strx4"]):
            tab = self.f.strx_table
            if bytes(v) not in tab:
                tab.append(bytes(v))
            return self.enc_index(fc - F["strx1"] + 1 if fc != F["strx"] else 0, tab.index(bytes(v)))
        if fc in (F["addrx"], F["addrx1"], F["addrx2"], F["addrx3"], F["addrx4"]):
            tab = self.f.addr_table
            if v not in tab:
                tab.append(v)
            return self.enc_index(fc - F["addrx1"] + 1 if fc != F["addrx"] else 0, tab.index(v))
        if fc in (F["rnglistx"], F["loclistx"]):
            return uleb(v)
        if fc == F["sec_offset"]:
            return self.p("I", v)
        if fc in (F["ref1"], F["ref2"], F["ref4"], F["ref8"], F["ref_udata"]):
            off = (v.offset - u.offset) if (resolve and isinstance(v, Die)) else (v if isinstance(v, int) else 0)
            if fc == F["ref1"]: return self.p("B", off & 0xff)
            if fc == F["ref2"]: return self.p("H", off & 0xffff)
            if fc == F["ref4"]: return self.p("I", off)
            if fc == F["ref8"]: return self.p("Q", off)
            return uleb(off if resolve else 0x3fff)[:2] if False else pad_uleb(off if resolve else 0, 3)
        if fc == F["ref_addr"]:
            off = v.offset if (resolve and isinstance(v, Die)) else (v if isinstance(v, int) else 0)
            return self.p("I" if u.version >= 3 else ("Q" if u.addr_size == 8 else "I"), off)
        if fc == F["ref_sig8"]:
            return self.p("Q", v)
        if fc == F["exprloc"]:
            b = self.enc_expr(u, v, resolve)
            return uleb(len(b)) + b
        if fc == F["block1"]:
            b = self.enc_expr(u, v, resolve) if isinstance(v, list) else bytes(v)
            return self.p("B", len(b)) + b
        if fc == F["block2"]:
            b = self.enc_expr(u, v, resolve) if isinstance(v, list) else bytes(v)
            return self.p("H", len(b)) + b
        if fc == F["block4"]:
            b = self.enc_expr(u, v, resolve) if isinstance(v, list) else bytes(v)
            return self.p("I", len(b)) + b
        if fc == F["block"]:
            b = self.enc_expr(u, v, resolve) if isinstance(v, list) else bytes(v)
            return uleb(len(b)) + b
        raise ValueError("form %r" % (f,))

    def enc_index(self, nbytes, idx):
        """Index of a DWARF 5 x-form: ULEB128 (nbytes == 0) or 1-4 bytes in the file's byte order."""
        if nbytes == 0:
            return uleb(idx)
        assert idx < (1 << (8 * nbytes))
        b = idx.to_bytes(nbytes, "big" if self.f.big else "little")
        return b

    # ------------------------------------------------------------ expressions
    def enc_expr(self, u, ops, resolve):
        """ops: list of (opname, operand...) ; operands pre-typed by the op's class."""
        out = bytearray()
        for op in ops:
            name, args = op[0], op[1:]
            code = name if isinstance(name, int) else DW_OP[name]
            out.append(code)
            out += self.enc_op_args(u, code, args, resolve)
        return bytes(out)

    def enc_op_args(self, u, code, args, resolve):
        O = DW_OP
        p = self.p
        if code == O["addr"]:
            return p("Q" if u.addr_size == 8 else "I", args[0])
        if code in (O["const1u"], O["pick"], O["deref_size"]):
            return p("B", args[0])
        if code == O["const1s"]:
            return p("b", args[0])
        if code == O["const2u"]:
            return p("H", args[0])
        if code in (O["const2s"], O["skip"], O["bra"]):
            return p("h", args[0])
        if code == O["const4u"]:
            return p("I", args[0])
        if code == O["const4s"]:
            return p("i", args[0])
        if code == O["const8u"]:
            return p("Q", args[0])
        if code == O["const8s"]:
            return p("q", args[0])
        if code in (O["constu"], O["plus_uconst"], O["regx"], O["piece"]):
            return uleb(args[0])
        if code in (O["consts"], O["fbreg"]) or O["breg0"] <= code <= O["breg31"]:
            return sleb(args[0])
        if code == O["bregx"]:
            return uleb(args[0]) + sleb(args[1])
        if code == O["bit_piece"]:
            return uleb(args[0]) + uleb(args[1])
        if code == O["implicit_value"]:
            return uleb(len(args[0])) + bytes(args[0])
        if code == O["call2"]:
            return p("H", (args[0].offset - u.offset) if resolve and isinstance(args[0], Die) else 0)
        if code == O["call4"]:
            return p("I", (args[0].offset - u.offset) if resolve and isinstance(args[0], Die) else 0)
        if code in (O["implicit_pointer"], O["GNU_implicit_pointer"]):
            off = args[0].offset if resolve and isinstance(args[0], Die) else 0
            # like DW_FORM_ref_addr: address sized in DWARF 2, offset sized from DWARF 3 on
            return p(("Q" if u.addr_size == 8 else "I") if u.version == 2 else "I", off) + sleb(args[1])
        if code in (O["entry_value"], O["GNU_entry_value"]):
            b = self.enc_expr(u, args[0], resolve)
            return uleb(len(b)) + b
        if code in (O["const_type"], O["GNU_const_type"]):
            off = (args[0].offset - u.offset) if resolve and isinstance(args[0], Die) else 0
            return pad_uleb(off, 3) + p("B", len(args[1])) + bytes(args[1])
        if code in (O["regval_type"], O["GNU_regval_type"]):
            off = (args[1].offset - u.offset) if resolve and isinstance(args[1], Die) else 0
            return uleb(args[0]) + pad_uleb(off, 3)
        if code in (O["deref_type"], O["GNU_deref_type"]):
            off = (args[1].offset - u.offset) if resolve and isinstance(args[1], Die) else 0
            return p("B", args[0]) + pad_uleb(off, 3)
        if code in (O["convert"], O["GNU_convert"], O["reinterpret"], O["GNU_reinterpret"]):
            off = (args[0].offset - u.offset) if resolve and isinstance(args[0], Die) else 0
            return pad_uleb(off, 3)
        return b""   # no operands

    # ------------------------------------------------------------------ layout
    def unit_type(self, u):
        if u.unit_type is not None:
            return u.unit_type
        tag = u.root.tag if u.root is not None else None
        return {DW_TAG["partial_unit"]: 3, DW_TAG["type_unit"]: 2, DW_TAG["skeleton_unit"]: 4}.get(tag, 1)

    def unit_header(self, u, length):
        if u.version >= 5:
            ut = self.unit_type(u)
            h = self.p("IHBBI", length, u.version, ut, u.addr_size, u.abbrev_offset)
            if ut in (2, 6):        # type units: signature + offset of the type's DIE within the unit (here: the root)
                h += self.p("QI", 0x1122334455667788 ^ (u.offset or 0), 12 + 12)
            elif ut in (4, 5):      # skeleton / split compile: dwo id
                h += self.p("Q", 0x0102030405060708 ^ (u.offset or 0))
            return h
        return self.p("IHIB", length, u.version, u.abbrev_offset, u.addr_size)

    def header_size(self, u):
        if u.version >= 5:
            ut = self.unit_type(u)
            return 12 + (12 if ut in (2, 6) else 8 if ut in (4, 5) else 0)
        return 11

    def die_bytes(self, u, d, resolve):
        out = bytearray(uleb(d._abbrev))
        for a, f, v in d.attrs:
            out += self.enc_value(u, f, v, resolve)
        return out

    def layout(self):
        abbrev = self.assign_abbrevs()
        for resolve in (False, True):
            info = bytearray()
            for u in self.f.units:
                u.offset = len(info)
                body = bytearray()
                base = len(info) + self.header_size(u)

                def emit(d, parent):
                    d.offset = base + len(body)
                    d.parent = parent
                    body.extend(self.die_bytes(u, d, resolve))
                    if d.flag():
                        for c in d.children:
                            emit(c, d)
                        body.append(0)
                    else:
                        assert not d.children
                if u.root is not None:
                    emit(u.root, None)      # a unit without root is header-only: no DIEs at all
                hdr = self.unit_header(u, self.header_size(u) - 4 + len(body))
                info += hdr + body
        return abbrev, bytes(info)

    # --------------------------------------------------------------------- ELF
    def elf(self):
        abbrev, info = self.layout()
        f = self.f
        extra = []
        if f.strx_table:
            offs = b"".join(self.p("I", self.strp(x)) for x in f.strx_table)
            extra.append((b".debug_str_offsets", self.p("IHH", 4 + len(offs), 5, 0) + offs, 1))
        if f.addr_table:
            addrs = b"".join(self.p("Q", a) for a in f.addr_table)
            extra.append((b".debug_addr", self.p("IHBB", 4 + len(addrs), 5, 8, 0) + addrs, 1))
        secs = [(b".debug_abbrev", abbrev, 1), (b".debug_info", info, 1), (b".debug_str", bytes(self.str_data) or b"\0", 1)] + extra
        if self.line_str_data:
            secs.append((b".debug_line_str", bytes(self.line_str_data), 1))
        if f.debug_loc:
            secs.append((b".debug_loc", f.debug_loc, 1))
        if f.debug_loclists:
            secs.append((b".debug_loclists", f.debug_loclists, 1))
        if f.debug_ranges:
            secs.append((b".debug_ranges", f.debug_ranges, 1))
        if f.debug_line:
            secs.append((b".debug_line", f.debug_line, 1))
        if f.debug_rnglists:
            secs.append((b".debug_rnglists", f.debug_rnglists, 1))
        if f.debug_macinfo:
            secs.append((b".debug_macinfo", f.debug_macinfo, 1))
        return build_elf(f.elfclass, f.big, f.machine, secs, f.symbols)


def pad_uleb(v, n):
    """ULEB128 of V padded to exactly N bytes (so that sizes do not depend on offsets)."""
    out = bytearray()
    for i in range(n):
        b = v & 0x7f
        v >>= 7
        out.append(b | (0x80 if i < n - 1 else 0))
    assert v == 0
    return bytes(out)


def build_elf(elfclass, big, machine, secs, symbols, etype=1):
    """secs: [(name, data, align)]; symbols: [(name, value, size, info, other, shndx)] (a null symbol is prepended)."""
    e = ">" if big else "<"
    is64 = elfclass == 64
    shstr = bytearray(b"\0")
    names = []
    allsecs = list(secs)
    # symbol table
    strtab = bytearray(b"\0")
    symdata = bytearray()
    syms = [(b"", 0, 0, 0, 0, 0)] + list(symbols)
    nlocal = 1
    for i, (name, value, size, info, other, shndx) in enumerate(syms):
        if name:
            noff = len(strtab)
            strtab += name + b"\0"
        else:
            noff = 0
        if is64:
            symdata += struct.pack(e + "IBBHQQ", noff, info, other, shndx, value, size)
        else:
            symdata += struct.pack(e + "IIIBBH", noff, value & 0xffffffff, size & 0xffffffff, info, other, shndx)
        if i and (info >> 4) == 0 and nlocal == i:
            nlocal = i + 1
    symtab_idx = len(allsecs) + 1
    allsecs.append((b".symtab", bytes(symdata), 8))
    allsecs.append((b".strtab", bytes(strtab), 1))
    allsecs.append((b".shstrtab", None, 1))
    for name, _, _ in allsecs:
        names.append(len(shstr))
        shstr += name + b"\0"
    ehsize = 64 if is64 else 52
    shentsize = 64 if is64 else 40
    off = ehsize
    body = bytearray()
    headers = []
    for i, (name, data, align) in enumerate(allsecs):
        if data is None:
            data = bytes(shstr)
        pad = (-off) % max(align, 1)
        body += b"\0" * pad
        off += pad
        stype = 2 if name == b".symtab" else 3 if name in (b".strtab", b".shstrtab") else 1
        link = symtab_idx + 1 if name == b".symtab" else 0
        info = nlocal if name == b".symtab" else 0
        entsize = (24 if is64 else 16) if name == b".symtab" else 0
        headers.append((names[i], stype, 0, 0, off, len(data), link, info, align, entsize))
        body += data
        off += len(data)
    pad = (-off) % 8
    body += b"\0" * pad
    shoff = off + pad
    sh = bytearray(b"\0" * shentsize)
    for (n, t, fl, addr, o, sz, link, info, align, entsize) in headers:
        if is64:
            sh += struct.pack(e + "IIQQQQIIQQ", n, t, fl, addr, o, sz, link, info, align, entsize)
        else:
            sh += struct.pack(e + "IIIIIIIIII", n, t, fl, addr, o, sz, link, info, align, entsize)
    ident = b"\x7fELF" + bytes([2 if is64 else 1, 2 if big else 1, 1, 0]) + b"\0" * 8
    shnum = len(allsecs) + 1
    if is64:
        hdr = ident + struct.pack(e + "HHIQQQIHHHHHH", etype, machine, 1, 0, 0, shoff, 0, ehsize, 0, 0, shentsize, shnum, shnum - 1)
    else:
        hdr = ident + struct.pack(e + "HHIIIIIHHHHHH", etype, machine, 1, 0, 0, shoff, 0, ehsize, 0, 0, shentsize, shnum, shnum - 1)
    return bytes(hdr + body + sh)


def write(forest, path):
    data = Writer(forest).elf()
    with open(path, "wb") as f:
        f.write(data)
    return data
