"""C13 -- no memory error, undefined behaviour, leak or broken state lifecycle.

Monitors: ASan + UBSan (reports fatal), LeakSanitizer via explicit recoverable leak checks
after batches whose API objects have all been destroyed, and hook H1 (every operator state
constructed exactly once before first use, destroyed exactly once, no two live states
overlapping, nothing non-trivial alive when the state area dies).  Dedicated workload
(level fault_enumeration): every result set abandoned after k pulls for every k = 0..n+1,
query destroyed before/after the result, run-time failures injected at every step budget
(the step budget throws out of the engine at its n-th state access), hard errors at pull k,
queries rejected at every token position.  Thorough adds valgrind memcheck on a subset
(uninitialised values) and a libFuzzer target."""
import json, os, random, re, subprocess, glob
from vf import common, zast, zgen, zmodel as M, zcmp, zcheck

LEVEL = "fault_enumeration"
DW = ["entry", "entry child", "entry parent*", "entry attribute value", "unit root", "entry @AT_location elem", "symbol", "abbrev entry attribute",
      "entry abbrev", "entry (|D| [D child] length)", "entry ?root child* ?(@AT_type)", "entry name", "raw entry cooked parent", "entry @AT_decl_file"]


def leak_check(d, out, context, rejected_only):
    """Ask LSan for leaks now; attribute the new allocation sites to CONTEXT."""
    r = d.req("leakcheck", timeout=120)
    text = d.take_stderr()
    seen = out.setdefault("_sigs", set())
    for kind, nbytes, nobj, frames in common.parse_leaks(text):
        sig = common.leak_signature(frames)
        key = (kind, sig)
        if key in seen:
            continue
        seen.add(key)
        fns = " ".join(f for f, _ in frames)
        under_parser = "yyparse(" in fns or "yylex(" in fns
        if rejected_only and under_parser:
            out["bad"].append(("leak:rejected-query:parser", dict(site=sig, kind=kind, bytes=nbytes, objects=nobj, context=context[:5])))
        else:
            out["bad"].append(("leak:%s" % sig, dict(site=sig, kind=kind, bytes=nbytes, objects=nobj, context=context[:5],
                                                      frames=["%s %s" % f for f in frames[:14]])))
    out["leakchecks"] += 1
    return r


def job_abandon(payload):
    seed, count = payload
    common.drop_driver()
    d = common.get_driver(leaks=True)
    rng = random.Random(seed)
    out = {"programs": 0, "abandon_runs": 0, "fuel_runs": 0, "error_runs": 0, "leakchecks": 0, "nontrivial": 0, "maxk": 0, "bad": [], "samples": []}
    ctxt = []
    try:
        for c in range(count):
            g = zgen.Gen(rng, maxdepth=rng.randint(1, 4), err_rate=rng.choice([0.03, 0.15]))
            inp = rng.choice(["", "i:3:dec:0", "s:6162:1,i:3:dec:0"])
            prog = g.program(["c"] if inp else [])
            t = zast.text(prog)
            ctxt = [t] + ctxt[:6]
            full = d.run(t, inp=inp, fuel=zcheck.FUEL, max=400)
            if full["st"] in ("reject", "harness"):
                continue
            out["programs"] += 1
            n = len(full["res"])
            if n > 1:
                out["nontrivial"] += 1
            if full["st"] == "error":
                out["error_runs"] += 1
            # abandon after k pulls, every k
            for k in range(0, min(n + 2, 12)):
                r = d.run(t, inp=inp, fuel=zcheck.FUEL, max=k, qfirst=(k + c) % 2)
                out["abandon_runs"] += 1
                out["maxk"] = max(out["maxk"], k)
                if r["evbad"]:
                    out["bad"].append(("api-contract", dict(text=t, ev=r["ev"])))
            # a run-time failure injected at the f-th state access, every f up to what the full run needs
            need = full["fuel"]
            steps = list(range(1, min(need, 40) + 1)) + [rng.randint(1, max(1, need)) for _ in range(8)]
            for f in steps:
                r = d.run(t, inp=inp, fuel=f, max=400, qfirst=f % 2)
                out["fuel_runs"] += 1
                if r["evbad"]:
                    out["bad"].append(("api-contract", dict(text=t, fuel=f, ev=r["ev"])))
            if len(out["samples"]) < 2:
                out["samples"].append(dict(text=t, input=inp, results=n, abandoned_after="0..%d" % min(n + 1, 11), failure_injected_at_steps="1..%d" % min(need, 40)))
            if c % 10 == 9:
                leak_check(d, out, ctxt, False)
        leak_check(d, out, ctxt, False)
        st = d.stats()
        out["_stats"] = ((os.getpid(), d.gen), st)
    except common.DriverCrash as ex:
        out["bad"].append(("crash:" + getattr(ex, "key", ex.kind), dict(text=ctxt[0] if ctxt else "", request=ex.request[:600], report=ex.report[-3500:])))
    except common.DriverTimeout as ex:
        out["bad"].append(("hang", dict(request=ex.request[:600])))
    finally:
        common.drop_driver()
    out.pop("_sigs", None)
    return out


def mutate_tokens(tokens, rng):
    t = list(tokens)
    k = rng.random()
    if k < 0.4 and t:
        del t[rng.randrange(len(t))]
    elif k < 0.6:
        t.insert(rng.randrange(len(t) + 1), rng.choice([")", "(", "]", "[", "}", "{", ",", "||", ";", ":=", "let", "if", "then", "else", "*", "?(", "|", '"', "0x", "%(", ":"]))
    elif k < 0.8 and len(t) > 1:
        i, j = rng.randrange(len(t)), rng.randrange(len(t))
        t[i], t[j] = t[j], t[i]
    else:
        s = " ".join(t)
        return s[:rng.randrange(len(s) + 1)]
    return " ".join(t)


def mutate_bytes(text, rng):
    """Byte-level edits of the query text: any byte value, anywhere (outside and inside literals)."""
    b = bytearray(text.encode("latin-1"))
    for _ in range(rng.choice([1, 1, 2, 3])):
        k = rng.random()
        c = rng.choice([rng.randrange(0x80, 0x100), rng.randrange(1, 0x20), 0x7f, rng.randrange(0x20, 0x7f), 0xc3, 0xff, 0x80])
        pos = rng.randrange(len(b) + 1)
        if k < 0.6 or not b:
            b.insert(pos, c)
        elif k < 0.9:
            b[min(pos, len(b) - 1)] = c
        else:
            del b[min(pos, len(b) - 1)]
    return b.decode("latin-1")


def job_reject(payload):
    seed, count = payload
    common.drop_driver()
    d = common.get_driver(leaks=True, slow_unwind=True)   # full stacks: attribution to the parser matters here
    rng = random.Random(seed)
    out = {"rejected": 0, "mutants": 0, "leakchecks": 0, "bad": [], "samples": []}
    ctxt = []
    try:
        for c in range(count):
            g = zgen.Gen(rng, maxdepth=rng.randint(1, 3))
            toks = zast.toks(g.program([]), 0)
            # deletion of the token at every position + random edits
            variants = [" ".join(toks[:i] + toks[i + 1:]) for i in range(len(toks))][:30]
            variants += [mutate_tokens(toks, rng) for _ in range(10)]
            variants += [mutate_bytes(" ".join(toks), rng) for _ in range(8)]
            for v in variants:
                out["mutants"] += 1
                r = d.req("parse q=%s" % common.hx(v))
                if r["evbad"]:
                    out["bad"].append(("api-contract", dict(text=v, ev=r["ev"])))
                if r["st"] == "reject":
                    out["rejected"] += 1
                    ctxt = [v] + ctxt[:6]
                    if len(out["samples"]) < 2:
                        out["samples"].append(dict(rejected=v, msg=r["msg"]))
                elif r["st"] == "ok":
                    # accepted mutants would blur the attribution of leaks: restart the accounting with a check
                    pass
            if c % 10 == 9:
                leak_check(d, out, ctxt, True)
        leak_check(d, out, ctxt, True)
    except common.DriverCrash as ex:
        out["bad"].append(("crash:" + getattr(ex, "key", ex.kind), dict(text=ctxt[0] if ctxt else "", request=ex.request[:600], report=ex.report[-3500:])))
    except common.DriverTimeout as ex:
        out["bad"].append(("hang", dict(request=ex.request[:600])))
    finally:
        common.drop_driver()
    out.pop("_sigs", None)
    return out


def job_accept_only(payload):
    """Accepted mutants only (parse + destroy): any leak here is NOT the rejected-query finding."""
    seed, count = payload
    common.drop_driver()
    ref = common.Driver()          # decides acceptance without touching the leak-checked process
    d = common.get_driver(leaks=True, slow_unwind=True)
    rng = random.Random(seed)
    out = {"accepted": 0, "leakchecks": 0, "bad": []}
    ctxt = []
    try:
        for c in range(count):
            g = zgen.Gen(rng, maxdepth=rng.randint(1, 3))
            toks = zast.toks(g.program([]), 0)
            for v in [" ".join(toks)] + [mutate_tokens(toks, rng) for _ in range(6)]:
                if ref.req("parse q=%s" % common.hx(v))["st"] != "ok":
                    continue
                out["accepted"] += 1
                ctxt = [v] + ctxt[:6]
                d.req("parse q=%s" % common.hx(v))
                d.req("parse q=%s nosimp=1" % common.hx(v))
        leak_check(d, out, ctxt, False)
    except common.DriverCrash as ex:
        out["bad"].append(("crash:" + getattr(ex, "key", ex.kind), dict(request=ex.request[:600], report=ex.report[-3500:])))
    finally:
        ref.kill()
        common.drop_driver()
    out.pop("_sigs", None)
    return out


def job_words_leak(payload):
    """Every core word on operand tuples of every type combination (the cells of C11), each text compiled and run to the
    end in a leak-checked process; only texts the reference process ACCEPTS are used, so a leak here is not the known
    rejected-query finding.  Words whose work is done through a C library (regcomp/regexec, iostreams) are reached here."""
    seed, words = payload
    from vf.props import c11
    common.drop_driver()
    ref = common.Driver()
    d = common.get_driver(leaks=True, slow_unwind=True)
    rng = random.Random(seed)
    out = {"word_leak_runs": 0, "leakchecks": 0, "bad": []}
    ctxt = []
    try:
        for w in words:
            arity = 1 if w in c11.WORDS1 else (3 if w in c11.WORDS3 else 2)
            for _ in range(12):
                ops = [rng.choice(c11.POOL[:-1]) for _ in range(arity)]
                if arity == 2 and rng.random() < 0.5:
                    ops[1] = ops[0]
                t = zast.text(("cat", ops + [c11.wnode(w)]))
                if ref.req("parse q=%s" % common.hx(t))["st"] != "ok":
                    continue
                ctxt = [t] + ctxt[:8]
                d.run(t, fuel=100000, max=200)
                out["word_leak_runs"] += 1
            leak_check(d, out, ctxt, False)
        for t in ['"abc" "b" ?match', '"abc" "x" ?match', '"abc" "x" !match', '"abc" "(" ?match', '"abc" ("a", "x", "c$", "[") =~', '"abc" "x" !~', '"a" "%s %d %x" ',
                  '1 "%x %o %b %d %s"', '[1, "a", [2]] "%s"', '"\\x00" "\\x00" ?find', '(1, 2, 3) hex "%s"']:
            if ref.req("parse q=%s" % common.hx(t))["st"] == "ok":
                ctxt = [t] + ctxt[:8]
                d.run(t, fuel=100000, max=200)
                out["word_leak_runs"] += 1
        leak_check(d, out, ctxt, False)
    except common.DriverCrash as ex:
        out["bad"].append(("crash:" + getattr(ex, "key", ex.kind), dict(request=ex.request[:600], report=ex.report[-3500:])))
    except common.DriverTimeout as ex:
        out["bad"].append(("hang", dict(request=ex.request[:600])))
    finally:
        ref.kill()
        common.drop_driver()
    out.pop("_sigs", None)
    return out


def job_dwarf(payload):
    path, seed = payload
    common.drop_driver()
    d = common.get_driver(leaks=True)
    rng = random.Random(seed)
    out = {"dw_runs": 0, "leakchecks": 0, "bad": [], "samples": []}
    tag = os.path.basename(path)
    try:
        for raw in (False, True):
            inp = ("r:" if raw else "d:") + common.hx(path)
            for q in DW:
                full = d.run(q, inp=inp, fuel=0, max=200000, timeout=200)
                n = len(full.get("res", []))
                out["dw_runs"] += 1
                for k in sorted(set([0, 1, 2, n // 2, max(0, n - 1)])):
                    d.run(q, inp=inp, fuel=0, max=k, qfirst=k % 2, timeout=200)
                    out["dw_runs"] += 1
                for f in (1, 5, 17, 101, 1009):
                    d.run(q, inp=inp, fuel=f, max=200000, timeout=200)
                    out["dw_runs"] += 1
        leak_check(d, out, [tag], False)
        out["samples"].append(dict(file=tag, queries=DW[:4]))
    except common.DriverCrash as ex:
        out["bad"].append(("crash:" + getattr(ex, "key", ex.kind), dict(file=tag, request=ex.request[:600], report=ex.report[-3500:])))
    except common.DriverTimeout as ex:
        out["bad"].append(("hang", dict(file=tag, request=ex.request[:600])))
    finally:
        common.drop_driver()
    out.pop("_sigs", None)
    return out


OUTLIVE_PRODUCERS = ['{1 add}', 'let A := 7; {A add}', 'let A := "s"; let B := [1, 2]; {drop A B}', '{drop {1}}', '[{1 add}, {2 add}]', '{dup add}',
                     'let F := {3 add}; {F 1 add}', 'let A := [1, [2, "x"]]; {drop A elem}', '{(|X| X X add)}', '{[|X| X, X]}', '"str" [1, [2]] {dup}',
                     'let A := 1; let B := {A add}; {B B}', '{if (> 0) then (1 sub) else ()}', '{(1 add, 2 add)}', '{"%s%s"}', '[{1 add}] elem',
                     'let A := {5}; [{A}, 7, "x"]', '{{{1 add}}}']
OUTLIVE_CONSUMERS = ['2 swap apply', 'dup', '(|F| 1 F)', '(|F| [1 F, 2 F])', '2 swap dup rot swap apply swap apply', '(|F| {F})', '(|F| 3 {F} apply)', 'elem', '[elem]',
                     '(|S| S elem (|F| 4 F))', '2 swap apply apply', '2 swap apply apply apply', '(|F| 0 F F F)', '(|F| 0 (F ?(type == T_CONST) (< 4))*)', 'type', '"%s"', 'dup ?eq', '(|F| [F, F] elem)', '1 swap apply']


def job_outlive(payload):
    """Values that outlive the query that made them (the command line does this with every --a argument): closures with and without
    captured values, closures inside sequences and inside other closures, are taken from a result of a query that is then destroyed,
    and handed -- once, and again from a kept copy -- to other queries that apply, copy, compare, format and re-wrap them."""
    seed, count = payload
    d = common.get_driver()
    rng = random.Random(seed)
    out = {"outlive_runs": 0, "outlive_applied": 0, "bad": []}
    for i in range(count):
        p, c = rng.choice(OUTLIVE_PRODUCERS), rng.choice(OUTLIVE_CONSUMERS)
        t = "%s  ->  %s" % (p, c)
        try:
            r = d.run(c, inp="q:" + common.hx(p), fuel=200000, max=200)
            out["outlive_runs"] += 1
            if r["st"] == "done" and r["res"]:
                out["outlive_applied"] += 1
            if r["evbad"]:
                out["bad"].append(("api-contract", dict(text=t, ev=r["ev"])))
            k = d.req("keep id=ol%d in=q:%s" % (i % 3, common.hx(p)))
            if k["st"] == "ok":
                for c2 in (c, rng.choice(OUTLIVE_CONSUMERS)):
                    r2 = d.run(c2, inp="v:ol%d" % (i % 3), fuel=200000, max=200)
                    out["outlive_runs"] += 1
                    if r2["evbad"]:
                        out["bad"].append(("api-contract", dict(text="%s (kept)  ->  %s" % (p, c2), ev=r2["ev"])))
                # what a consumer yields is itself kept and consumed again: a value made by two queries, both gone
                k2 = d.req("keep id=om in=v:ol%d,q:%s" % (i % 3, common.hx(rng.choice(['dup', '(|F| {F})', '(|F| [F, F])', '(|F| let A := F; {A})']))))
                if k2["st"] == "ok":
                    r3 = d.run(rng.choice(OUTLIVE_CONSUMERS), inp="v:om", fuel=200000, max=200)
                    out["outlive_runs"] += 1
        except common.DriverCrash as ex:
            out["bad"].append(("crash:" + getattr(ex, "key", ex.kind), dict(text=t, report=ex.report[-3000:])))
        except common.DriverTimeout as ex:
            out["bad"].append(("hang", dict(text=t)))
    out["bad"] = out["bad"][:40]
    return out


def job_vocdrop(payload):
    """A query outlives the vocabulary it was compiled with (the vocabulary is destroyed right after zw_query_parse): words defined in
    both the core and the DWARF vocabulary (merged by zw_vocabulary_add), applied to operands they accept and to operands they refuse
    (the diagnostic names the word), constants, assertions, closures."""
    seed, count = payload
    d = common.get_driver()
    rng = random.Random(seed)
    out = {"vocdrop_runs": 0, "bad": []}
    words = ["length", "elem", "relem", "add", "sub", "?empty", "!empty", "low", "high", "value", "?find", "?starts", "name", "offset", "label", "pos", "type", "hex",
             "?eq", "?contains", "?overlaps", "range", "address", "root", "child", "parent", "?root", "?haschildren", "abbrev", "code", "form", "symbol", "unit", "entry"]
    operands = ["1", '"ab"', "[1, 2]", "0 5 aset", "[]", "{1}", "true", "DW_AT_name", "1 2", '"a" [1]', "0 5 aset 2", "0 5 aset (2 9 aset)", ""]
    for i in range(count):
        t = "%s %s" % (rng.choice(operands), rng.choice(words))
        if rng.random() < 0.2:
            t = "%s ?(%s) %s" % (rng.choice(operands), rng.choice(words), rng.choice(words))
        try:
            a = d.run(t, fuel=100000, max=200)
            b = d.run(t, fuel=100000, max=200, voc="grow", vocdrop=1)
            out["vocdrop_runs"] += 1
            if b["evbad"]:
                out["bad"].append(("api-contract", dict(text=t, ev=b["ev"])))
            if (a["st"], a.get("res"), a["stderr"]) != (b["st"], b.get("res"), b["stderr"]):
                out["bad"].append(("query-whose-vocabulary-was-destroyed-behaves-differently", dict(text=t, with_vocabulary=dict(st=a["st"], stderr=a["stderr"][:200], n=len(a.get("res", []))),
                                                                                                  without=dict(st=b["st"], stderr=b["stderr"][:200], n=len(b.get("res", []))))))
        except common.DriverCrash as ex:
            out["bad"].append(("crash:" + getattr(ex, "key", ex.kind), dict(text=t, report=ex.report[-3000:])))
        except common.DriverTimeout as ex:
            out["bad"].append(("hang", dict(text=t)))
    out["bad"] = out["bad"][:40]
    return out


def job_hetero(payload):
    """Sequences whose elements are of every type, lined up against each other by the haystack/needle words, the comparisons,
    `add` and the formatter: every pair of element types meets in value::cmp (where 'not my type' has to be an answer, not a cast)."""
    seed, count = payload
    d = common.get_driver()
    rng = random.Random(seed)
    out = {"hetero_runs": 0, "bad": []}
    elems = ['1', '-5', '0xff', '"a"', '"abc"', '""', '[]', '[1]', '["a"]', '[[1], "a"]', '{1}', '{dup}', 'true', 'T_STR', 'T_CONST', '"a\\x00b"', '[{1}]']

    def sq():
        return "[" + ", ".join(rng.choice(elems) for _ in range(rng.choice([0, 1, 1, 2, 2, 3, 4]))) + "]"
    words = ["?find", "!find", "?starts", "!starts", "?ends", "!ends", "?eq", "!eq", "?lt", "?gt", "?le", "?ge", "add", "== ", "< ", '"%s %s"', "?match", "swap elem swap elem ?lt"]
    for i in range(count):
        a, b = sq(), sq()
        if rng.random() < 0.3:
            a = rng.choice(elems)
        if rng.random() < 0.2:
            b = rng.choice(elems)
        w = rng.choice(words)
        t = "%s %s %s" % (a, b, w) if not w.endswith(" ") else "%s (%s%s)" % (a, w, b)
        try:
            r = d.run(t, fuel=200000, max=200)
            out["hetero_runs"] += 1
            if r["evbad"]:
                out["bad"].append(("api-contract", dict(text=t, ev=r["ev"])))
        except common.DriverCrash as ex:
            out["bad"].append(("crash:" + getattr(ex, "key", ex.kind), dict(text=t, report=ex.report[-3000:])))
        except common.DriverTimeout as ex:
            out["bad"].append(("hang", dict(text=t)))
    out["bad"] = out["bad"][:40]
    return out


def job_shallow(payload):
    """Every word of the vocabulary, and the back-tick capture forms, on stacks that are too shallow, exactly deep enough
    and one deeper: the boundary where 'not enough values' has to be an error and never an out-of-bounds access."""
    words, = payload
    d = common.get_driver()
    out = {"shallow_runs": 0, "shallow_errors": 0, "bad": []}
    stacks = ["", "1", '"a"', "[ 1 ]", "1 2", '"a" 2', "1 2 3", '[ ] "a" 3', "1 2 3 4", "1 2 3 4 5"]
    for w in words:
        for st in stacks:
            t = (st + " " + w).strip()
            try:
                r = d.run(t, fuel=200000, max=50)
                out["shallow_runs"] += 1
                if r["st"] == "error":
                    out["shallow_errors"] += 1
                if r["evbad"]:
                    out["bad"].append(("api-contract", dict(text=t, ev=r["ev"])))
            except common.DriverCrash as ex:
                out["bad"].append(("crash:" + getattr(ex, "key", ex.kind), dict(text=t, report=ex.report[-3000:])))
            except common.DriverTimeout as ex:
                out["bad"].append(("hang", dict(text=t)))
    out["bad"] = out["bad"][:40]
    return out


def valgrind_subset(chk, nprogs):
    """memcheck on the un-sanitised hook build: uninitialised-value use and invalid accesses ASan cannot see."""
    from vf import build
    build.build("vg")
    exe = os.path.join(common.VERIF, "build", "vg", "drv", "zwdrv")
    rng = chk.rng("vg")
    lines = []
    for i in range(nprogs):
        g = zgen.Gen(rng, maxdepth=rng.randint(1, 4), err_rate=0.05)
        t = zast.text(g.program([]))
        lines.append("run q=%s fuel=%d max=%d" % (common.hx(t), zcheck.FUEL, rng.choice([400, 400, 1, 2])))
    tdir = os.path.join(common.REPO, "tests")
    for f in ("typedef.o", "dwz-partial", "a1.out"):
        for q in DW:
            lines.append("run q=%s in=d:%s max=50" % (common.hx(q), common.hx(os.path.join(tdir, f))))
    chunks = [lines[i::16] for i in range(16)]
    procs = []
    for i, ch in enumerate(chunks):
        logf = os.path.join(chk.rundir, "vg-%d.log" % i)
        p = subprocess.Popen(["valgrind", "--tool=memcheck", "--error-exitcode=99", "--errors-for-leak-kinds=definite", "--leak-check=no",
                              "--track-origins=yes", "--log-file=" + logf, exe], stdin=subprocess.PIPE, stdout=subprocess.DEVNULL, stderr=subprocess.DEVNULL)
        p.stdin.write(("\n".join(ch) + "\nquit\n").encode())
        p.stdin.close()
        procs.append((p, logf, ch))
    nerr = 0
    for p, logf, ch in procs:
        rc = p.wait()
        log = open(logf).read() if os.path.exists(logf) else ""
        m = re.search(r"ERROR SUMMARY: (\d+) errors", log)
        errs = int(m.group(1)) if m else -1
        if rc == 99 or errs > 0:
            nerr += 1
            first = re.search(r"==\d+== ((?:Conditional jump|Use of uninit|Invalid|Mismatched|Syscall param)[^\n]*\n(?:==\d+==[^\n]*\n){1,12})", log)
            site = re.search(r"(?:by|at) 0x[0-9A-F]+: (\S+) \(((?:[a-z-]+)\.(?:cc|hh|yy|ll)):\d+\)", log)
            chk.violation("memcheck:%s" % (site.group(1)[:60] if site else "?"), {"log": logf, "first": first.group(1)[:1500] if first else log[-1500:]})
        elif errs < 0:
            chk.inconc("valgrind run %s gave no summary (rc=%s)" % (logf, rc))
    return len(lines)


def fuzz_stage(chk, runs_per_job, jobs=12):
    """libFuzzer (clang, ASan+UBSan, hooks) on parse -> execute under a step budget -> pull k -> abandon.
    Count-bounded; crash artifacts are re-run one by one to triage."""
    from vf import build
    build.build("fuzz")
    exe = os.path.join(common.VERIF, "build", "fuzz", "drv", "fuzz_exec")
    work = os.path.join(chk.rundir, "fuzz")
    corpus = os.path.join(work, "corpus")
    arts = os.path.join(work, "artifacts")
    import shutil
    shutil.rmtree(work, ignore_errors=True)
    os.makedirs(corpus); os.makedirs(arts)
    rng = chk.rng("fuzz")
    for i in range(400):
        g = zgen.Gen(rng, maxdepth=rng.randint(1, 3))
        t = zast.text(g.program([])).encode("latin-1")[:300]
        open(os.path.join(corpus, "s%03d" % i), "wb").write(bytes([rng.randrange(32)]) + t)
    env = dict(os.environ)
    env["ASAN_OPTIONS"] = "abort_on_error=1:detect_leaks=0:quarantine_size_mb=8:allocator_may_return_null=1"
    env["UBSAN_OPTIONS"] = "print_stacktrace=1:halt_on_error=1:abort_on_error=1"
    cmd = [exe, "-runs=%d" % runs_per_job, "-max_len=300", "-dict=" + os.path.join(common.VERIF, "drv", "zwerg.dict"), "-rss_limit_mb=3000",
           "-timeout=25", "-jobs=%d" % jobs, "-workers=%d" % jobs, "-artifact_prefix=" + arts + "/", "-seed=%d" % (chk.seed & 0x7fffffff), corpus]
    p = subprocess.run(cmd, cwd=work, stdout=subprocess.PIPE, stderr=subprocess.STDOUT, env=env, timeout=6 * 3600)
    execs = 0
    cov = 0
    for lf in glob.glob(os.path.join(work, "fuzz-*.log")):
        txt = open(lf, errors="replace").read()
        m = re.findall(r"stat::number_of_executed_units: (\d+)", txt)
        if m:
            execs += int(m[-1])
        m = re.findall(r"#(\d+)\s+(?:DONE|REDUCE|NEW|pulse)\s+cov: (\d+)", txt)
        if m:
            execs = max(execs, 0)
            cov = max(cov, int(m[-1][1]))
            if not re.search(r"number_of_executed_units", txt):
                execs += int(m[-1][0])
    nart = 0
    for a in sorted(os.listdir(arts)):
        nart += 1
        path = os.path.join(arts, a)
        if a.startswith("timeout-") or a.startswith("oom-") or a.startswith("slow-unit-"):
            # a query that runs long under the fuzzer's wall clock is not a verdict (the step budget bounds it logically)
            continue
        r = subprocess.run([exe, path], stdout=subprocess.PIPE, stderr=subprocess.STDOUT, env=env, timeout=600)
        out = r.stdout.decode("utf-8", "replace")
        if r.returncode != 0:
            kind, key = common.classify_report(out, r.returncode)
            data = open(path, "rb").read()
            chk.violation("fuzz:" + key, {"artifact": path, "query": repr(data[1:])[:400], "control_byte": data[0] if data else None, "report": out[-3000:]})
    return dict(executions=execs, coverage_edges=cov, artifacts=nart, corpus=len(os.listdir(corpus)))


def run(chk):
    quick = chk.tier == "quick"
    pool = common.Pool()
    tot, ctx, samples = {}, {}, []
    na = 480 if quick else 12000
    nr = 320 if quick else 8000
    zcheck.consume(chk, pool.map(job_abandon, [(chk.seed * 999983 + i, 30) for i in range(na // 30)]), tot, ctx, samples, "C13 abandon")
    zcheck.consume(chk, pool.map(job_reject, [(chk.seed * 7 + i, 20) for i in range(nr // 20)]), tot, ctx, samples, "C13 reject")
    zcheck.consume(chk, pool.map(job_accept_only, [(chk.seed * 11 + i, 40) for i in range(8 if quick else 64)]), tot, ctx, samples, "C13 accept")
    tdir = os.path.join(common.REPO, "tests")
    names = ["typedef.o", "nontrivial-types.o", "dwz-partial", "a1.out", "enum.o", "bitcount.o", "char_16_32.o", "dwz-partial2-1"]
    files = [os.path.join(tdir, f) for f in names if os.path.exists(os.path.join(tdir, f))]
    if not quick:
        files = sorted(set(files + [p for p in glob.glob(os.path.join(tdir, "*")) if os.path.isfile(p) and open(p, "rb").read(4) == b"\x7fELF"]))
    zcheck.consume(chk, pool.map(job_dwarf, [(f, i) for i, f in enumerate(files)]), tot, ctx, samples, "C13 dwarf")
    from vf.props import c11 as _c11
    cw = [w for w in _c11.WORDS1 + _c11.WORDS2 + _c11.WORDS3 if isinstance(w, str)]
    zcheck.consume(chk, pool.map(job_words_leak, [(chk.seed * 17 + i, cw[i:i + 6]) for i in range(0, len(cw), 6)]), tot, ctx, samples, "C13 word leaks")
    # boundary stack depths for the whole vocabulary (constants excluded: they only push) and the back-tick forms
    dv = common.Driver()
    voc = dv.req("voc")["words"]
    dv.kill()
    wl = [w for w in voc if not (w[:3] in ("DW_", "T_C", "T_S", "T_D", "T_A", "T_L", "T_E", "STT", "STB", "STV", "SHT", "SHF", "EM_", "ET_", "EF_") or w.startswith("T_"))]
    if quick:
        rngw = chk.rng("shallow")
        core = [w for w in wl if not (w[0] in "?!@" and ("AT_" in w or "TAG_" in w or "OP_" in w or "FORM_" in w or "LANG_" in w or "ATE_" in w or "DS_" in w or "STT_" in w or "STB_" in w))]
        wl = core + rngw.sample([w for w in wl if w not in core], 150)
    wl += ["`" * k + "[" + b + "]" for k in range(1, 7) for b in ("", "1", "dup", "1, 2", "drop")]
    wl += ["(|A B C| A)", "(|A B C D E| A)", "let A B C := ;", "[|A B| A]", "?(|A B C| A)", "{} apply", "rot rot rot", "over over", "swap drop drop"]
    zcheck.consume(chk, pool.map(job_shallow, [(wl[i:i + 25],) for i in range(0, len(wl), 25)]), tot, ctx, samples, "C13 shallow")
    zcheck.consume(chk, pool.map(job_vocdrop, [(chk.seed * 31 + i, 120) for i in range(16 if quick else 300)]), tot, ctx, samples, "C13 vocabulary dropped")
    zcheck.consume(chk, pool.map(job_hetero, [(chk.seed * 29 + i, 150) for i in range(16 if quick else 400)]), tot, ctx, samples, "C13 hetero")
    zcheck.consume(chk, pool.map(job_outlive, [(chk.seed * 23 + i, 40) for i in range(16 if quick else 400)]), tot, ctx, samples, "C13 outlive")
    hs = pool.hook_stats()
    pool.finish()
    vg = 0
    fz = {}
    if not quick:
        vg = valgrind_subset(chk, 1500)
        fz = fuzz_stage(chk, 150000)
    chk.cov.update({
        "evaluations": tot.get("abandon_runs", 0) + tot.get("fuel_runs", 0) + tot.get("mutants", 0) + tot.get("dw_runs", 0) + tot.get("accepted", 0),
        "distinct_nontrivial": tot.get("nontrivial", 0) + tot.get("rejected", 0),
        "rule": "fault enumeration: for every generated program, abandonment after every k = 0..n+1 pulls (query destroyed before or after the result) and a "
                "run-time failure injected at every one of its first 40 state accesses plus random later ones; for every generated token list, deletion "
                "of the token at every position; non-trivial = programs with more than one result + queries actually rejected",
        "programs": tot.get("programs", 0), "abandonment_runs": tot.get("abandon_runs", 0), "max_abandon_index": tot.get("maxk", 0),
        "injected_failure_runs": tot.get("fuel_runs", 0), "programs_raising_hard_errors": tot.get("error_runs", 0),
        "mutated_queries": tot.get("mutants", 0), "rejected_queries": tot.get("rejected", 0), "accepted_queries_leak_checked": tot.get("accepted", 0),
        "dwarf_runs": tot.get("dw_runs", 0), "dwarf_files": [os.path.basename(f) for f in files],
        "leak_checks": tot.get("leakchecks", 0), "core_word_x_operand_runs_in_leak_checked_processes": tot.get("word_leak_runs", 0),
        "runs_of_queries_whose_vocabulary_was_destroyed_after_the_parse": tot.get("vocdrop_runs", 0),
        "runs_lining_up_elements_of_different_types": tot.get("hetero_runs", 0),
        "runs_on_values_that_outlived_their_query": tot.get("outlive_runs", 0), "of_which_yielded": tot.get("outlive_applied", 0),
        "word_x_boundary_depth_runs": tot.get("shallow_runs", 0), "of_which_raised_cleanly": tot.get("shallow_errors", 0),
        "H1": {k: hs.get(k) for k in ("scon_new", "scon_del", "scon_con", "scon_des", "scon_get", "fuel_exhausted")},
        "state_types_seen": sorted((hs.get("state_types") or {}).keys()),
        "valgrind_memcheck_jobs": vg, "libfuzzer": fz,
        "sanitizers": "gcc ASan+UBSan (-fno-sanitize-recover=all), LSan recoverable checks, H1 shadow map; every other property's check runs on the same build",
        "samples": samples[:6],
    })
    chk.assumptions += ["a failure injected by the step budget (an exception out of scon::get) stands for any exception an upstream operator can raise at that point",
                        "ASan cannot see intra-object overflows or reuse after quarantine; memcheck (thorough) covers uninitialised reads on a subset"]
    # (decided on the jobs' own counters: the hook statistics above are those of each worker's LAST driver process only)
    if tot.get("abandon_runs", 0) < 1000 or tot.get("leakchecks", 0) < 10 or tot.get("fuel_runs", 0) < 100:
        chk.inconc("too few events")


def replay(path):
    w = json.load(open(path))
    print(json.dumps(w, indent=1)[:4000])
    return 0
