"""C11 -- core words do what their documentation says.

Monitors: O1 word model (vf/zmodel.py: list / byte-string / integer model) on every core
word x operand tuples from a value pool x stack depths 0-6 x several histories reaching the
same top of stack; O2 history independence (the same top reached by direct pushes, by
push/drop detours, through let bindings, through the API's input stack must give identical
results); H3 (cached stack profile == recomputation after every push/pop/drop) rides on all."""
import json, random, itertools
from vf import common, zast, zgen, zmodel as M, zcmp, zcheck

I = lambda v, d="dec": ("int", v, d)
S = lambda b: ("str", [b])


def seq(*items):
    if not items:
        return ("elist",)
    return ("cap", (), ("alt", list(items)) if len(items) > 1 else items[0])


POOL = [
    I(0), I(1), I(2), I(-1), I(255, "hex"), I(8, "oct"), I(5, "bin"), I((1 << 63) - 1), I(-(1 << 63)), I((1 << 64) - 1, "hex"),
    ("word", "true"), ("word", "false"), ("word", "T_STR"),
    S(b""), S(b"a"), S(b"ab"), S(b"abc"), S(b"b"), S(b"a\x00b"), S(b"\xff\xfe"), S(b"ba"), S(b"a.*c"),
    seq(), seq(I(1)), seq(I(1), I(2)), seq(I(2)), seq(I(1), I(2), I(1)), seq(S(b"a"), I(1)), seq(seq(), seq(I(1))), seq(S(b"a")),
    ("block", (), I(1)),
]
WORDS1 = ["length", "elem", "relem", "?empty", "!empty", "value", "hex", "dec", "oct", "bin", "type", "pos", "dup", "drop", "apply"]
WORDS2 = ["add", "sub", "mul", "div", "mod", "?find", "!find", "?starts", "!starts", "?ends", "!ends", "?match", "!match",
          "?eq", "!eq", "?ne", "?lt", "!lt", "?gt", "?le", "?ge", "swap", "over"]
WORDS3 = ["rot"]
NPOS = [("npos", True, 0), ("npos", False, 0), ("npos", True, 1), ("npos", True, 2)]


def wnode(w):
    return w if isinstance(w, tuple) else ("word", w)


def history(kind, junk, ops, w, rng):
    """AST reaching stack junk+ops then applying w, by different routes."""
    word = wnode(w)
    if kind == "direct":
        return ("cat", junk + ops + [word])
    if kind == "detour":
        body = list(junk)
        for o in ops:
            body += [o, rng.choice(POOL[:8]), ("word", "drop")]
        if len(ops) >= 2:
            body += [("word", "swap"), ("word", "swap")]
        body += [ops[-1], ("word", "swap"), ("word", "drop")] if ops else []
        return ("cat", body + [word])
    if kind == "let":
        names = ["Ha", "Hb", "Hc"][:len(ops)]
        lets = [("let", (n,), o) for n, o in zip(names, ops)]
        return ("cat", lets + junk + [("read", n) for n in names] + [word])
    if kind == "scope":
        names = ["Sa", "Sb", "Sc"][:len(ops)]
        return ("cat", ops + [("paren", tuple(names), ("cat", junk + [("read", n) for n in names] + [word]))])
    if kind == "alias":
        # other live copies of the operands lie below (made by dup / over): the word must leave them as they were
        body = list(junk)
        for o in ops:
            body += [o, ("word", "dup")]
        n = len(ops)
        # a a b b  ->  bring one copy of each operand to the top, in order: bind them all, re-push
        names = ["Aa", "Ab", "Ac"][:n]
        allnames = []
        for nm in names:
            allnames += [nm + "x", nm]
        return ("cat", body + [("paren", tuple(allnames), ("cat", [("read", nm + "x") for nm in names] + [("read", nm) for nm in names] + [word]))])
    if kind == "positioned":
        # the operands arrive with non-zero positions (third thing yielded by `elem`): results are numbered afresh by the word
        body = list(junk)
        for k, o in enumerate(ops):
            filler = [rng.choice(POOL[:8]) for _ in range(k + 1)]
            body.append(("cat", [("cap", (), ("alt", filler + [o])), ("word", "elem"), ("infix", ("word", "pos"), "==", ("int", k + 1, "dec"))]))
        return ("cat", body + [word])
    if kind == "stream":
        # the word sits in a stream: other operand tuples (often of the wrong type) arrive before and after this one
        def tup():
            return ("cat", list(junk) + [rng.choice(POOL[:-1]) for _ in ops])
        return ("cat", [("alt", [tup(), ("cat", junk + ops), tup(), ("cat", junk + ops)]), word])
    if kind == "repeat":
        # the same operand tuple three times in a row: the word has to treat the second and third exactly like the first
        return ("cat", [("alt", [("cat", junk + ops)] * 3), word])
    raise ValueError(kind)


def job(payload):
    seed, cases = payload
    d = common.get_driver()
    rng = random.Random(seed)
    out = {"n": 0, "o1": 0, "o1_skipped": 0, "hist": 0, "diag_cases": 0, "nontrivial": 0, "bad": [], "samples": [], "depths": {}}
    for w, opidx, depth in cases:
        ops = [POOL[i] if isinstance(i, int) else i for i in opidx]
        junk = [rng.choice(POOL) for _ in range(max(0, depth - len(ops)))]
        # closures as operands are applied when read through a name: use 'direct'/'detour' only for them
        hk = ["direct", "detour", "let", "scope"]
        if any(o[0] == "block" for o in ops):
            hk = ["direct", "detour"]
        elif ops:
            hk += ["alias", "stream", "positioned", "repeat"]       # judged by O1 only: their results legitimately differ from the plain histories
        out["n"] += 1
        out["depths"][str(len(junk) + len(ops))] = out["depths"].get(str(len(junk) + len(ops)), 0) + 1
        try:
            first = None
            for kind in hk:
                prog = history(kind, junk, ops, w, rng)
                t = zast.text(prog)
                why, m, r = zcheck.o1(d, prog, t)
                bad = []
                zcheck.basic_events(r, t, bad)
                out["bad"] += bad
                if why is None:
                    out["o1_skipped"] += 1
                else:
                    out["o1"] += 1
                    if why:
                        out["bad"].append(("O1:%s:%s" % (wtext(w), why), dict(text=t, **zcheck.describe(m, r))))
                    if m["diag"]:
                        out["diag_cases"] += 1
                    if m["results"]:
                        out["nontrivial"] += 1
                # the order of two DIFFERENT closure values is unspecified (the hidden closure type is outside the ordering laws,
                # and distinct blocks are ordered by where their code lives): no history comparison for order words on them
                unordered_closures = sum(1 for o in ops if o[0] == "block") >= 2 and isinstance(w, str) and w.lstrip("?!") in ("lt", "gt", "le", "ge")
                if kind not in ("alias", "stream", "positioned", "repeat") and not unordered_closures:
                    # history independence: the top |ops|+produced slots must agree (junk differs for scope/let: same junk list)
                    sig = (r["st"], sorted(zcheck.exact_key(s) for s in zcheck.eng_results(r)) if r["st"] == "done" else None, bool(r["stderr"]))
                    if first is None:
                        first = (kind, sig, t)
                    else:
                        out["hist"] += 1
                        if sig != first[1]:
                            out["bad"].append(("O2:history-dependence:%s" % wtext(w), dict(a=first[2], b=t, kind_a=first[0], kind_b=kind)))
                if len(out["samples"]) < 3 and kind == "let":
                    out["samples"].append(t)
        except common.DriverCrash as ex:
            out["bad"].append(("crash:" + getattr(ex, "key", ex.kind), dict(text=wtext(w) + " on " + repr(opidx), report=ex.report[-3000:])))
        except common.DriverTimeout as ex:
            out["bad"].append(("hang", dict(text=wtext(w), request=ex.request[:800])))
    out["bad"] = out["bad"][:60]
    dp = out.pop("depths")
    for k, v in dp.items():
        out["depth_" + k] = v
    return out


def wtext(w):
    return zast.text(wnode(w))


def job_api(payload):
    """Operands delivered through the API's input stack, with arbitrary positions."""
    seed, count = payload
    d = common.get_driver()
    rng = random.Random(seed)
    out = {"api": 0, "api_o1": 0, "bad": []}
    specs = [("i:3:dec:%d", lambda p: M.C(3, "dec", p)), ("u:16:hex:%d", lambda p: M.C(16, "hex", p)),
             ("s:6162:%d", lambda p: M.S(b"ab", p)), ("s::%d", lambda p: M.S(b"", p)), ("i:-7:oct:%d", lambda p: M.C(-7, "oct", p)),
             ("u:1:bool:%d", lambda p: M.C(1, "bool", p))]
    words = WORDS1 + WORDS2 + WORDS3
    for i in range(count):
        depth = rng.randint(0, 6)
        items = [(rng.choice(specs), rng.randint(0, 5)) for _ in range(depth)]
        inp = ",".join(sp[0] % p for sp, p in items)
        stk = tuple(sp[1](p) for sp, p in items)
        w = rng.choice(words + NPOS)
        node = wnode(w)
        try:
            r = d.run(zast.text(node), inp=inp, fuel=zcheck.FUEL, max=zcheck.MAXRES)
            out["api"] += 1
            m = M.run(node, stk)
            if m["status"] in ("indeterminate", "budget"):
                continue
            out["api_o1"] += 1
            why = zcheck.compare_model(m, r)
            if why:
                out["bad"].append(("O1-api:%s:%s" % (wtext(w), why), dict(text=zast.text(node), input=inp, **zcheck.describe(m, r))))
            if not r.get("in_same", True):
                out["bad"].append(("input-stack-modified", dict(text=zast.text(node), input=inp)))
        except common.DriverCrash as ex:
            out["bad"].append(("crash:" + getattr(ex, "key", ex.kind), dict(text=wtext(w), input=inp, report=ex.report[-3000:])))
    out["bad"] = out["bad"][:40]
    return out


def run(chk):
    quick = chk.tier == "quick"
    rng = chk.rng()
    n = len(POOL)
    cases = []
    for w in WORDS1 + NPOS:
        for i in range(n):
            for depth in (1, rng.randint(2, 4), rng.randint(5, 6)):
                cases.append((w, (i,), depth))
        cases.append((w, (), 0))
    pairs = list(itertools.product(range(n), repeat=2))
    for w in WORDS2:
        ps = pairs if not quick else rng.sample(pairs, 260)
        for p in ps:
            cases.append((w, p, rng.choice([2, 2, 3, 4, 5, 6])))
        for i in range(0, n, 3):
            cases.append((w, (i,), 1))      # too shallow
        cases.append((w, (), 0))
    for w in WORDS3:
        for _ in range(300 if quick else 6000):
            cases.append((w, tuple(rng.randrange(n) for _ in range(3)), rng.randint(3, 6)))
        cases.append((w, (0, 1), 2))
    # haystack/needle words on random operands over a tiny alphabet: overlaps, repeats, NULs, needle at several places at once
    def rstr():
        return S(bytes(rng.choice(b"ab\x00") if rng.random() < 0.9 else rng.randrange(256) for _ in range(rng.choice([0, 1, 1, 2, 2, 3, 4, 5, 6]))))
    def rseq():
        return seq(*[I(rng.choice([1, 2])) if rng.random() < 0.9 else rstr() for _ in range(rng.choice([0, 1, 1, 2, 2, 3, 4, 5]))])
    def related(mk, a):
        # a needle cut out of the haystack (prefix / suffix / middle), so that the interesting answer is frequent
        if a[0] == "str":
            b = a[1][0]
            i = rng.randint(0, len(b)); j = rng.choice([len(b), rng.randint(i, len(b))])
            return S(b[i:j])
        if a[0] == "cap":
            items = a[2][1] if a[2][0] == "alt" else [a[2]]
            i = rng.randint(0, len(items)); j = rng.choice([len(items), rng.randint(i, len(items))])
            return seq(*items[i:j])
        return mk()
    for _ in range(700 if quick else 30000):
        mk = rng.choice([rstr, rstr, rseq])
        a = mk()
        b = related(mk, a) if rng.random() < 0.7 else mk()
        w = rng.choice(["?find", "!find", "?starts", "!starts", "?ends", "!ends", "add", "?eq", "?lt"])
        cases.append((w, (a, b), rng.choice([2, 2, 3, 5])))
    # needles whose beginning repeats (x x y, a b a c), in haystacks where the only occurrence starts inside a failed partial match
    for _ in range(300 if quick else 6000):
        strings = rng.random() < 0.5
        x, y, z = rng.sample([1, 2, 3] if not strings else [97, 98, 0], 3)
        needle = rng.choice([[x, x, y], [x, y, x, z], [x, x, x, y], [x, y, x, y, z], [x, x, y, x, x, z]])
        k = rng.randint(1, len(needle) - 1)
        hay = [rng.choice([x, y, z]) for _ in range(rng.randint(0, 3))] + needle[:k] + needle + [rng.choice([x, y, z]) for _ in range(rng.randint(0, 2))]
        if rng.random() < 0.2:
            hay = hay[:-1 - rng.randint(0, 1)]       # occurrence cut short: the answer is mostly "no"
        a, b = (S(bytes(hay)), S(bytes(needle))) if strings else (seq(*[I(v) for v in hay]), seq(*[I(v) for v in needle]))
        cases.append((rng.choice(["?find", "!find", "?find", "?starts", "?ends"]), (a, b), rng.choice([2, 3, 5])))
    # sequences captured from a producer whose results carry non-zero positions (one element, two, three): `elem` / `relem` number
    # what they yield afresh, whatever position an element had when it was captured
    for _ in range(150 if quick else 3000):
        src = seq(*[I(rng.randint(5, 9)) for _ in range(rng.randint(3, 5))])
        n_src = len(src[2][1])
        ks = sorted(rng.sample(range(1, n_src), rng.choice([1, 1, 1, 2, min(3, n_src - 1)])))
        pick = ("or", [("npos", True, k) for k in ks]) if len(ks) > 1 else ("npos", True, ks[0])
        a = ("cap", (), ("cat", [src, ("word", "elem"), pick]))
        w = rng.choice(["elem", "relem", "elem", "length", "dup"])
        if rng.random() < 0.4:
            b = seq(I(1)) if rng.random() < 0.5 else a
            cases.append((rng.choice(["add", "?eq", "?find"]), (a, b), rng.choice([2, 3])))
        else:
            cases.append((w, (a,), rng.choice([1, 2, 4])))
    # regular expressions: patterns that compile and patterns that cannot, on matching and non-matching strings (the histories apply the
    # same pattern to several stacks in a row, and other patterns before and after)
    from vf.zmodel import BAD_ERE
    for w in ("?match", "!match"):
        for hay in (b"abc", b"a(", b"", b"xyz"):
            for pat in sorted(BAD_ERE) + [b"a", b"a.*c", b"", b"z", b"bc"]:
                cases.append((w, (S(hay), S(pat)), rng.choice([2, 3, 5])))
    # back-tick brackets (the only users of stack::drop)
    for depth in range(0, 7):
        for k in range(1, depth + 3):
            for body in (None, I(1), ("alt", [I(1), S(b"a")]), ("word", "dup")):
                cases.append((("bcap", k, body), (), depth))
    rng.shuffle(cases)
    pool = common.Pool()
    tot, ctx, samples = {}, {}, []
    B = 60
    zcheck.consume(chk, pool.map(job, [(chk.seed * 31 + i, cases[i:i + B]) for i in range(0, len(cases), B)]), tot, ctx, samples, "C11 words")
    zcheck.consume(chk, pool.map(job_api, [(chk.seed * 37 + i, 150) for i in range(20 if quick else 400)]), tot, ctx, samples, "C11 api")
    hs = pool.hook_stats()
    pool.finish()
    sc = hs.get("stack_checks") or [0] * 8
    chk.cov.update({
        "evaluations": tot.get("n", 0) + tot.get("api", 0),
        "distinct_nontrivial": tot.get("nontrivial", 0),
        "rule": "one evaluation = one (word, operand tuple, depth) cell run through 2-4 histories (O1 each, O2 across) or one API-input run; "
                "non-trivial = the model predicts at least one result (the word applies to these operands)",
        "words": [wtext(w) for w in WORDS1 + WORDS2 + WORDS3 + NPOS], "pool_size": n, "random_haystack_needle_cells": 700 if quick else 30000,
        "arity2_pairs_exhaustive": not quick,
        "O1_model_comparisons": tot.get("o1", 0) + tot.get("api_o1", 0), "O1_skipped": tot.get("o1_skipped", 0),
        "history_pairs_compared": tot.get("hist", 0), "cases_with_expected_diagnostic": tot.get("diag_cases", 0),
        "cells_by_depth": {k[6:]: v for k, v in sorted(tot.items()) if k.startswith("depth_")},
        "H3_profile_checks_by_depth_0_to_7plus": sc, "H3_profile_checks_after_drop": hs.get("stack_checks_after_drop"),
        "samples": samples[:5],
    })
    chk.assumptions += ["?match/=~ judged only on patterns where POSIX ERE search and Python re agree and operands have no NUL",
                        "cross-type and cross-domain order is unspecified: such cells are skipped (counted in O1_skipped)"]
    if tot.get("o1", 0) < 2000 or sum(sc[5:]) == 0 or not hs.get("stack_checks_after_drop"):
        chk.inconc("too few events or H3 never saw deep/post-drop stacks")


def replay(path):
    w = json.load(open(path))
    print(json.dumps(w, indent=1)[:3000])
    return 0
