"""C05 -- navigation words (parent/child/root/unit/entry) agree on every DIE.

Monitor: O2 laws evaluated on identities recorded from the engine for EVERY DIE of every
input, in raw and in cooked mode (identity = offset + raw/cooked + import route), and the
same laws written in the language as zero-count queries (both must agree):
  child/parent inverse, root = end of the parent chain and ?root, unit entry = entry,
  DIEs of a unit = root child*, unit of a DIE lists it, a DIE reached twice by the same
  route is equal to itself (offset, label, attributes).
Inputs: sample binaries, freshly compiled objects, generated forests with partial units
imported several times, nested up to four levels, with deep content."""
import glob, json, os, random
from vf import common, zcheck, dwgen, dwforest, dwcorpus, zcmp

Q_ALL = "entry (|D| D [D parent] [D child] [D root] [D parent* !(parent)] [D ?root] [D unit root] [D label] [D attribute [label, form]])"
INLANG = [("child-has-other-parent", "entry (|D| D child ?(parent != D))"),
          ("root-differs-from-end-of-parent-chain", "entry ?((root) != (parent* !(parent)))"),
          ("root-is-not-?root", "entry !(root ?root)"),
          ("parent-chain-end-is-not-?root", "entry (parent* !(parent)) !root"),
          ("DIE-not-equal-to-itself", "entry dup ?ne"),
          ("child-not-found-among-parents-children", "entry ?(parent) (|D| D !(parent child == D))"),
          ("root-of-child-differs", "entry (|D| D child ?(root != D root))")]
# the same laws for values that change view on the way (a raw DIE / unit made cooked, a cooked one made raw): whatever DIE a view
# hands out, `root` ends its `parent` chain and satisfies ?root -- partial-unit roots included
INLANG += [("mixed-view:root-is-not-?root:raw-unit-cooked", "raw unit cooked root !root"),
           ("mixed-view:root-is-not-?root:raw-entry-cooked", "raw entry cooked !(root ?root)"),
           ("mixed-view:root-differs-from-end-of-parent-chain:raw-entry-cooked", "raw entry cooked ?((root) != (parent* !(parent)))"),
           ("mixed-view:parent-chain-end-is-not-?root:raw-entry-cooked", "raw entry cooked (parent* !(parent)) !root"),
           ("mixed-view:root-is-not-?root:raw-unit-cooked-entry", "raw unit cooked entry !(root ?root)"),
           ("mixed-view:root-is-not-?root:entry-raw", "entry raw !(root ?root)"),
           ("mixed-view:child-has-other-parent:raw-entry-cooked", "raw entry cooked (|D| D child ?(parent != D))"),
           ("mixed-view:root-is-not-?root:unit-root-raw-cooked", "unit root raw cooked !root")]
# DIEs and units asked about in another order than the stored one (caches are filled by whoever comes first)
INLANG += [("reverse:root-is-not-?root", "(|Dw| [Dw entry] relem !(root ?root))"),
           ("reverse:unit-root-is-not-?root", "(|Dw| [Dw unit] relem root !root)"),
           ("reverse:raw-root-is-not-?root", "(|Dw| [Dw raw entry] relem !(root ?root))"),
           ("reverse:parent-chain-end-is-not-?root", "(|Dw| [Dw entry] relem (parent* !(parent)) !root)"),
           # `unit` of a DIE is exactly one of the units the raw view lists (main and supplementary file alike)
           ("unit-of-DIE-equals-not-exactly-one-raw-unit", "(|Dw| Dw entry (|D| ([Dw raw unit ?(== D unit)] length != 1)))"),
           ("unit-of-raw-DIE-equals-not-exactly-one-raw-unit", "(|Dw| Dw raw entry (|D| ([Dw raw unit ?(== D unit)] length != 1)))")]
INLANG_HOLD = [("unit-entry-differs-from-entry", "(|Dw| ?([Dw unit entry] == [Dw entry]))"),
               ("unit-root-child*-differs-from-unit-entry-count", "(|Dw| ?([Dw unit (|U| [U entry] length)] == [Dw unit (|U| [U root child*] length)]))")]


def ident(v):
    return (v["o"], v["fsz"], v["raw"], tuple(v["imp"]))


def check_file(d, path, raw, tag, out, bad):
    inp = ("r:" if raw else "d:") + common.hx(path)
    r = d.run(Q_ALL, inp=inp, fuel=0, max=3000000, timeout=900)
    if r["st"] == "error" and "No DWARF" in r.get("msg", ""):
        return
    if r["st"] != "done":
        bad.append(("navigation-query-failed", dict(file=tag, st=r["st"], msg=r.get("msg")))); return
    recs = []
    for s in r["res"]:
        D = s[-9]
        recs.append(dict(id=ident(D), parent=[ident(x) for x in s[-8]["v"]], children=[ident(x) for x in s[-7]["v"]], root=[ident(x) for x in s[-6]["v"]],
                         top=[ident(x) for x in s[-5]["v"]], isroot=len(s[-4]["v"]) == 1, unitroot=[x["o"] for x in s[-3]["v"]],
                         label=[x["v"] for x in s[-2]["v"]], attrs=json.dumps(s[-1]["v"], sort_keys=True), tag=D["tag"]))
    out["dies"] += len(recs)
    byid = {}
    for rec in recs:
        byid.setdefault(rec["id"], []).append(rec)
    # a DIE reached twice by the same route: identical offset, label, attributes
    for i, lst in byid.items():
        if len(lst) > 1:
            out["same_route_twice"] += 1
            if any(x["label"] != lst[0]["label"] or x["attrs"] != lst[0]["attrs"] for x in lst):
                bad.append(("same-route-DIE-differs", dict(file=tag, die=repr(i))))
    for rec in recs:
        i = rec["id"]
        if len(rec["parent"]) > 1 or len(rec["root"]) != 1 or len(rec["top"]) != 1:
            bad.append(("navigation-arity", dict(file=tag, die=repr(i), parent=len(rec["parent"]), root=len(rec["root"]), top=len(rec["top"])))); continue
        if rec["root"][0] != rec["top"][0]:
            bad.append(("root-differs-from-end-of-parent-chain", dict(file=tag, die=repr(i), root=repr(rec["root"][0]), chain_end=repr(rec["top"][0]))))
        if rec["isroot"] != (not rec["parent"]):
            bad.append(("?root-disagrees-with-having-no-parent", dict(file=tag, die=repr(i))))
        for c in rec["children"]:
            out["child_links"] += 1
            crec = byid.get(c)
            if crec is None:
                bad.append(("child-not-listed-by-entry", dict(file=tag, die=repr(i), child=repr(c)))); break
            if crec[0]["parent"] != [i]:
                bad.append(("child-has-other-parent", dict(file=tag, die=repr(i), child=repr(c), its_parent=repr(crec[0]["parent"])))); break
        if rec["parent"]:
            prec = byid.get(rec["parent"][0])
            if prec is None:
                bad.append(("parent-not-listed-by-entry", dict(file=tag, die=repr(i), parent=repr(rec["parent"][0]))))
            elif i not in prec[0]["children"]:
                bad.append(("parent-does-not-list-the-DIE-as-child", dict(file=tag, die=repr(i), parent=repr(rec["parent"][0]))))
        if len(bad) > 6:
            return
    # unit entry == entry ; per unit: entry multiset == root child* multiset
    r2 = d.run("(|Dw| [Dw unit entry] [Dw entry])", inp=inp, fuel=0, max=10, timeout=900)
    if r2["st"] == "done" and r2["res"]:
        a, b = [ident(x) for x in r2["res"][0][-2]["v"]], [ident(x) for x in r2["res"][0][-1]["v"]]
        out["laws"] += 1
        if a != b:
            bad.append(("unit-entry-differs-from-entry", dict(file=tag, unit_entry=len(a), entry=len(b))))
        if [x["id"] for x in recs] != b:
            bad.append(("entry-not-reproducible", dict(file=tag)))
    r3 = d.run("unit (|U| U [U entry] [U root child*] [U root])", inp=inp, fuel=0, max=100000, timeout=900)
    if r3["st"] == "done":
        for s in r3["res"]:
            out["laws"] += 1
            e, c = sorted(ident(x) for x in s[-3]["v"]), sorted(ident(x) for x in s[-2]["v"])
            if e != c:
                bad.append(("unit-DIEs-differ-from-root-child*", dict(file=tag, unit=s[-4]["o"], entry=len(e), reach=len(c),
                                                                    only_entry=[repr(x) for x in e if x not in c][:4], only_reach=[repr(x) for x in c if x not in e][:4])))
    # `unit` of a DIE is the unit whose RAW entry lists it
    r4 = d.run("raw unit (|U| [U root offset, U entry offset])", inp=inp, fuel=0, max=100000, timeout=900)
    if r4["st"] == "done":
        owner = {}
        for s in r4["res"]:
            offs = [int(x["v"]) for x in s[-1]["v"]]
            for o in offs[1:]:
                owner.setdefault(o, []).append(offs[0])
        for rec in recs:
            out["laws"] += 1
            # (offsets of a main and a supplementary file can collide: any owner of that offset is accepted)
            if len(rec["unitroot"]) != 1 or rec["unitroot"][0] not in owner.get(rec["id"][0], []):
                bad.append(("unit-of-DIE-does-not-list-it", dict(file=tag, die=repr(rec["id"]), unit=rec["unitroot"], lists=owner.get(rec["id"][0])))); break
    # the same laws in the language
    for name, q in INLANG:
        rq = d.run(q, inp=inp, fuel=0, max=5, timeout=900)
        out["inlang"] += 1
        if rq["st"] != "done":
            bad.append(("in-language-law-failed-to-run:" + name, dict(file=tag, st=rq["st"], msg=rq.get("msg"))))
        elif rq["res"]:
            bad.append(("in-language:" + name, dict(file=tag, query=q, witness=rq["res"][0][-1].get("sh"))))
    for name, q in INLANG_HOLD:
        rq = d.run(q, inp=inp, fuel=0, max=5, timeout=900)
        out["inlang"] += 1
        if rq["st"] != "done" or len(rq["res"]) != 1:
            bad.append(("in-language:" + name, dict(file=tag, query=q, st=rq["st"])))


def job(payload):
    kind, arg = payload
    d = common.get_driver()
    out = {"files": 0, "dies": 0, "child_links": 0, "laws": 0, "inlang": 0, "same_route_twice": 0, "routed": 0, "bad": [], "samples": []}
    paths = []
    if kind == "forest":
        seed, count = arg
        rng = random.Random(seed)
        os.makedirs(os.path.join(common.RUN, "forests"), exist_ok=True)
        for i in range(count):
            f = dwforest.gen_forest(rng, rng.choice(["imports", "imports", "imports", "plain", "deep", "many"]))
            if rng.random() < 0.3:
                # units that consist of their header only, anywhere between the others (first, in a row, last)
                for _ in range(rng.randint(1, 3)):
                    f.units.insert(rng.randint(0, len(f.units)), dwgen.Unit(None, rng.choice([2, 3, 4, 5])))
            p = os.path.join(common.RUN, "forests", "c05-%d-%d.o" % (seed, i))
            dwgen.write(f, p)
            paths.append((p, True))
    elif kind == "archive":
        # an ar archive: one Dwarf value made of several modules (members whose units end in partial units, or are DIE-less, in the middle)
        import subprocess
        os.makedirs(os.path.join(common.RUN, "forests"), exist_ok=True)
        idx, arg = arg       # (the index keeps the directories of two jobs with the same members apart: they run side by side)
        adir = os.path.join(common.RUN, "forests", "c05-ar-%d-%s" % (idx, "-".join(os.path.basename(m)[:8] for m in arg)))
        os.makedirs(adir, exist_ok=True)
        p = os.path.join(adir, "members.a")
        if os.path.exists(p):
            os.unlink(p)
        # supplementary (dwz) files are looked up next to the archive
        from vf import dwdump
        for m in arg:
            alt = dwdump.altlink(m)
            if alt and not alt.startswith("missing:") and not os.path.exists(os.path.join(adir, os.path.basename(alt))):
                os.symlink(alt, os.path.join(adir, os.path.basename(alt)))
        if subprocess.run(["ar", "rcs", p] + list(arg), stdout=subprocess.PIPE, stderr=subprocess.PIPE).returncode == 0:
            paths = [(p, True)]
            out["archives"] = 1
    else:
        paths = [(arg, False)]
    for p, tmp in paths:
        for raw in (False, True):
            tag = os.path.basename(p) + (":raw" if raw else ":cooked")
            bad = []
            try:
                before = out["dies"]
                check_file(d, p, raw, tag, out, bad)
                out["files"] += 1
            except common.DriverCrash as ex:
                bad.append(("crash:" + getattr(ex, "key", ex.kind), dict(file=tag, report=ex.report[-3000:])))
            except common.DriverTimeout:
                bad.append(("hang", dict(file=tag)))
            out["bad"] += bad[:5]
        if tmp and not out["bad"]:
            os.unlink(p)
            if kind == "archive":
                import shutil
                shutil.rmtree(os.path.dirname(p), ignore_errors=True)
        if len(out["samples"]) < 1:
            out["samples"].append(dict(file=os.path.basename(p), dies=out["dies"]))
    out["bad"] = out["bad"][:30]
    return out


def run(chk):
    quick = chk.tier == "quick"
    pool = common.Pool()
    tot, ctx, samples = {}, {}, []
    from vf.props import c02
    jobs = [("file", f) for f in c02.sample_files()]
    corpus = dwcorpus.build(quick)
    sel = corpus if not quick else corpus[::6]
    jobs += [("file", p) for p, linked in sel]
    tdir = os.path.join(common.REPO, "tests")
    members = [os.path.join(tdir, f) for f in ("dwz-partial4-1.o", "nullptr.o", "typedef.o", "enum.o", "imported-AT_decl_file.o") if os.path.exists(os.path.join(tdir, f))]
    import shutil
    if shutil.which("ar") and len(members) >= 3:
        rnga = chk.rng("archives")
        combos = [members[:2], members[1::-1], [members[2], members[0], members[3]]] + [rnga.sample(members, rnga.randint(2, 4)) for _ in range(3 if quick else 40)]
        jobs += [("archive", (i, c)) for i, c in enumerate(combos)]
    nf = 160 if quick else 3200
    jobs += [("forest", (chk.seed * 49979687 + i, 8)) for i in range(nf // 8)]
    zcheck.consume(chk, pool.map(job, jobs), tot, ctx, samples, "C05")
    pool.finish()
    chk.cov.update({
        "evaluations": tot.get("dies", 0),
        "distinct_nontrivial": tot.get("files", 0),
        "rule": "one evaluation = one DIE (in raw or cooked mode) whose parent/children/root/chain end/unit were recorded and checked against the laws; "
                "distinct_nontrivial = (file, mode) pairs",
        "child_parent_links_checked": tot.get("child_links", 0), "per_unit_and_per_DIE_laws": tot.get("laws", 0),
        "in_language_law_queries": tot.get("inlang", 0), "identities_reached_more_than_once_by_the_same_route": tot.get("same_route_twice", 0),
        "ar_archives_of_sample_objects": tot.get("archives", 0), "generated_forests": nf, "sample_files": len(c02.sample_files()), "compiled_objects": len(sel),
        "samples": samples[:5],
    })
    if tot.get("dies", 0) < 5000:
        chk.inconc("too few DIEs")


def replay(path):
    w = json.load(open(path))
    print(json.dumps(w, indent=1)[:4000])
    return 0
