"""C18 -- ELF symbols are reported completely and faithfully.

Monitor: an independent struct-level reader of .symtab (vf/elfread.py) and the names elf.h
gives each (machine, code) vs what `symbol` yields: every entry exactly once, in table order,
numbered from zero, name / value / address / size / type / binding / visibility equal to the
stored fields, type and binding rendered in the constant family of the file's machine; plus:
a machine-specific code of one machine never equals the same number of another machine while
common codes do.  Inputs: generated symbol tables (all type x binding x visibility codes,
zero size, SHN_ABS, SHN_UNDEF, section symbols, long and empty names, 0 and 5000 symbols,
ELF32/ELF64, LSB/MSB, every machine elf.h knows), the sample binaries, freshly linked objects."""
import glob, json, os, random, re, shutil, subprocess
from vf import common, zcheck, dwgen, elfread, dwcorpus
from vf.dwgen import Die, Unit, Forest

Q = "symbol [pos, name, value, size, label, binding, visibility, address, label value, binding value, visibility value]"


def gen_symbols(rng, shape):
    syms = []
    if shape == "empty":
        return syms
    n = {"small": rng.randint(1, 30), "all": 0, "many": 5000}[shape]
    if shape == "all":
        for t in range(16):
            for b in range(16):
                v = (t + b) % 4
                syms.append((("s_%d_%d" % (t, b)).encode(), rng.getrandbits(32), rng.choice([0, 4, 8]), (b << 4) | t, v, rng.choice([0xfff1, 0, 1])))
        for v in range(4):
            syms.append((("vis%d" % v).encode(), v, 0, 0x12, v, 0xfff1))
        return syms
    for i in range(n):
        k = rng.random()
        name = ("sym%d" % i).encode()
        if k < 0.05:
            name = b""
        elif k < 0.08:
            name = b"L" * 4096
        elif k < 0.12:
            name = bytes([rng.choice(b"abc$._@")]) * rng.randint(1, 20)
        t, b = rng.randrange(16), rng.choice([0, 1, 2, 10, 13, rng.randrange(16)])
        value = rng.choice([0, 1, rng.getrandbits(31), rng.getrandbits(63), (1 << 64) - 1])
        size = rng.choice([0, 0, 1, 8, rng.getrandbits(20), (1 << 32) - 1, 1 << 32, (1 << 32) + 4, (1 << 63) + 16, (1 << 64) - 1, rng.getrandbits(64)])
        shndx = rng.choice([0xfff1, 0xfff1, 0, 1, 2, 3])
        syms.append((name, value, size, (b << 4) | t, rng.randrange(4) | rng.choice([0, 0, 0x20]), shndx))
    return syms


def _markers():
    out = {}
    try:
        txt = open("/usr/include/elf.h").read()
        for m in re.finditer(r"^#define\s+(ST[TBV]_(?:LOOS|HIOS|LOPROC|HIPROC))\s+(\d+)", txt, re.M):
            out[m.group(1)] = int(m.group(2))
    except OSError:
        pass
    return out


RANGE_MARKERS = _markers()


def check_file(d, path, tag, out, bad, raw=False):
    truth = elfread.read_symtab(path)
    if truth is None or truth["syms"] is None:
        return False
    inp = ("r:" if raw else "d:") + common.hx(path)
    r = d.run(Q, inp=inp, fuel=0, max=2000000, timeout=600)
    if r["st"] != "done":
        bad.append(("symbol-query-failed", dict(file=tag, st=r["st"], msg=r.get("msg")))); return True
    syms = truth["syms"]
    mask = (1 << truth["cls"]) - 1 if truth["cls"] == 32 else (1 << 64) - 1
    if len(r["res"]) != len(syms):
        bad.append(("symbol-count-differs", dict(file=tag, want=len(syms), got=len(r["res"])))); return True
    relocatable = truth["type"] == 1
    for i, (s, res) in enumerate(zip(syms, r["res"])):
        e = res[-1]["v"]
        symv = res[-2]
        out["symbols"] += 1
        w = dict(file=tag, index=i, stored=dict(name=repr(s["name"][:40]), value=s["value"], size=s["size"], info=s["info"], other=s["other"], shndx=s["shndx"]))
        if symv["p"] != i or symv["idx"] != i or int(e[0]["v"]) != i:
            bad.append(("symbol-numbering", dict(w, pos=symv["p"], idx=symv["idx"]))); break
        if bytes.fromhex(e[1]["v"]) != s["name"]:
            bad.append(("symbol-name-differs", dict(w, got=repr(bytes.fromhex(e[1]["v"])[:40])))); break
        # libdwfl relocates values of symbols defined in allocated sections of ET_REL files; those are not judged
        judged_value = not (relocatable and 0 < s["shndx"] < 0xff00)
        if judged_value and (int(e[2]["v"]) != s["value"] or int(e[7]["v"]) != s["value"]):
            bad.append(("symbol-value-differs", dict(w, value=e[2]["v"], address=e[7]["v"]))); break
        if int(e[3]["v"]) != s["size"]:
            bad.append(("symbol-size-differs", dict(w, got=e[3]["v"]))); break
        t, b, v = s["info"] & 0xf, s["info"] >> 4, s["other"] & 3
        if int(e[8]["v"]) != t or int(e[9]["v"]) != b or int(e[10]["v"]) != v:
            bad.append(("symbol-type-binding-visibility-number-differs", dict(w, got=(e[8]["v"], e[9]["v"], e[10]["v"])))); break
        for fam, code, val in (("STT", t, e[4]), ("STB", b, e[5]), ("STV", v, e[6])):
            names = elfread.expected_names(fam, truth["machine"], code)
            out["renderings"] += 1
            if names:
                out["named"] += 1
                if val["f"] not in names:
                    bad.append(("symbol-constant-rendered-under-wrong-name:%s" % fam, dict(w, machine=truth["machine"], code=code, got=val["f"], want=names))); break
            else:
                allnames = set(n for (f2, a), tab in elfread.elf_names()[1].items() if f2 == fam for ns in tab.values() for n in ns)
                if val["f"] in allnames:
                    bad.append(("symbol-constant-given-a-name-of-another-machine:%s" % fam, dict(w, machine=truth["machine"], code=code, got=val["f"]))); break
                # a code without a name of its own: if it is rendered relative to a range marker of elf.h (STT_LOPROC+1, STB_LOOS+2) or
                # with a number, that has to denote the stored code
                m = re.fullmatch(r"(ST[TBV]_[A-Z]+)\+(\d+)", val["f"])
                if m:
                    basev = RANGE_MARKERS.get(m.group(1))
                    out["relative_renderings"] = out.get("relative_renderings", 0) + 1
                    if basev is None or basev + int(m.group(2)) != code:
                        bad.append(("symbol-constant-rendering-denotes-another-code:%s" % fam, dict(w, code=code, got=val["f"], marker=basev))); break
                else:
                    m = re.search(r"\((0x[0-9a-f]+|\d+)\)", val["f"])
                    if m and int(m.group(1), 0) != code:
                        bad.append(("symbol-constant-rendering-denotes-another-code:%s" % fam, dict(w, code=code, got=val["f"]))); break
        else:
            continue
        break
    return True


def job(payload):
    kind, arg = payload
    d = common.get_driver()
    out = {"files": 0, "symbols": 0, "renderings": 0, "named": 0, "machines": 0, "bad": [], "samples": []}
    try:
        if kind == "gen":
            seed, machines = arg
            rng = random.Random(seed)
            os.makedirs(os.path.join(common.RUN, "syms"), exist_ok=True)
            made, keep = [], False
            for m in machines:
                shape = rng.choice(["small", "small", "all", "empty", "many"] if rng.random() < 0.15 else ["small", "small", "all", "empty"])
                cls = rng.choice([64, 64, 32])
                big = rng.random() < 0.3
                syms = gen_symbols(rng, shape)
                if cls == 32:
                    syms = [(n, v & 0xffffffff, s & 0xffffffff, i, o, x) for n, v, s, i, o, x in syms]
                cu = Die("compile_unit", [("name", "string", b"s.c")])
                f = Forest([Unit(cu, 4, addr_size=8 if cls == 64 else 4)], machine=m, elfclass=cls, big=big, symbols=syms)
                w = dwgen.Writer(f)
                abbrev, info = w.layout()
                secs = [(b".debug_abbrev", abbrev, 1), (b".debug_info", info, 1), (b".debug_str", b"\0", 1)]
                data = dwgen.build_elf(cls, big, m, secs, syms, etype=rng.choice([1, 2, 3]))
                p = os.path.join(common.RUN, "syms", "c18-%d-%d.o" % (seed, m))
                open(p, "wb").write(data)
                bad = []
                tag = "%s (machine %d, ELF%d %s, %s, %d symbols)" % (os.path.basename(p), m, cls, "MSB" if big else "LSB", shape, len(syms))
                if check_file(d, p, tag, out, bad, raw=rng.random() < 0.3):
                    out["files"] += 1
                    out["machines"] += 1
                out["bad"] += bad[:3]
                keep = keep or bool(bad)
                made.append((p, tag))
                if len(out["samples"]) < 1:
                    out["samples"].append(tag)
            # ONE compiled query run on the files of all these machines in turn: what it yields for a file must be what a
            # fresh compile-and-run yields for that file alone (nothing about an earlier file's machine may stick to the query)
            if len(made) > 1:
                fresh = {}
                for p, tag in made:
                    fresh[p] = d.run(Q, inp="d:" + common.hx(p), fuel=0, max=2000000, timeout=600)
                d.req("parse id=c18q q=%s" % common.hx(Q))
                order = list(made) + list(reversed(made))
                for p, tag in order:
                    d.req("exec qid=c18q rid=c18r in=d:%s fuel=0" % common.hx(p))
                    rr = d.req("next rid=c18r max=2000000 fuel=0", timeout=600)
                    d.req("rdestroy rid=c18r")
                    out["shared_query_runs"] = out.get("shared_query_runs", 0) + 1
                    if json.dumps(rr.get("res"), sort_keys=True) != json.dumps(fresh[p].get("res"), sort_keys=True):
                        k = next((i for i, (a, b) in enumerate(zip(rr.get("res", []), fresh[p].get("res", []))) if a != b), None)
                        out["bad"].append(("query-compiled-once-yields-differently-for-a-later-file", dict(file=tag, first_file=made[0][1], symbol_index=k,
                                                                                                             got=[v.get("f") for v in (rr["res"][k][-1]["v"][4:7] if k is not None else [])],
                                                                                                             want=[v.get("f") for v in (fresh[p]["res"][k][-1]["v"][4:7] if k is not None else [])])))
                        keep = True
                        break
                d.req("qdestroy id=c18q")
            # an ar archive of relocatable members: `symbol` lists the tables of all members, one after the other, each numbered from zero
            rel = []
            if machines and shutil.which("ar"):
                # (members of one archive share the machine: the file's machine decides the constant families)
                m0 = machines[0]
                for j in range(rng.randint(2, 3)):
                    msyms = gen_symbols(rng, "small")
                    cu = Die("compile_unit", [("name", "string", b"m%d.c" % j)])
                    fm = Forest([Unit(cu, 4, addr_size=8)], machine=m0, elfclass=64, big=False, symbols=msyms)
                    wm = dwgen.Writer(fm)
                    ab, inf = wm.layout()
                    mp = os.path.join(common.RUN, "syms", "c18-%d-member%d.o" % (seed, j))
                    open(mp, "wb").write(dwgen.build_elf(64, False, m0, [(b".debug_abbrev", ab, 1), (b".debug_info", inf, 1), (b".debug_str", b"\0", 1)], msyms, etype=1))
                    rel.append((mp, "member%d (machine %d, %d symbols)" % (j, m0, len(msyms))))
                    made.append((mp, rel[-1][1]))
            if len(rel) >= 2:
                arp = os.path.join(common.RUN, "syms", "c18-%d.a" % seed)
                if os.path.exists(arp):
                    os.unlink(arp)
                members = rel[:3]
                if subprocess.run(["ar", "rcs", arp] + [p for p, _ in members], stdout=subprocess.PIPE, stderr=subprocess.PIPE).returncode == 0:
                    ra = d.run(Q, inp="d:" + common.hx(arp), fuel=0, max=2000000, timeout=600)
                    out["archives"] = out.get("archives", 0) + 1
                    want = []
                    for p, tag in members:
                        for i, sy in enumerate(elfread.read_symtab(p)["syms"]):
                            want.append((i, sy["name"], sy["size"], sy["info"] & 0xf, sy["info"] >> 4, sy["other"] & 3))
                    if ra["st"] != "done":
                        out["bad"].append(("archive-symbol-query-failed", dict(archive=[t for _, t in members], st=ra["st"], msg=ra.get("msg")))); keep = True
                    else:
                        got = []
                        for k, res in enumerate(ra["res"]):
                            e = res[-1]["v"]
                            got.append((res[-2]["idx"], bytes.fromhex(e[1]["v"]), int(e[3]["v"]), int(e[8]["v"]), int(e[9]["v"]), int(e[10]["v"])))
                            if res[-2]["p"] != k:
                                out["bad"].append(("archive-symbols-not-numbered-consecutively", dict(archive=[t for _, t in members], at=k, pos=res[-2]["p"]))); keep = True; break
                        if got != want:
                            k = next((i for i, (a, b) in enumerate(zip(got, want)) if a != b), min(len(got), len(want)))
                            out["bad"].append(("archive-symbols-differ-from-the-members-tables", dict(archive=[t for _, t in members], want_count=len(want), got_count=len(got), first_difference=k,
                                                                                                       got=str(got[k])[:120] if k < len(got) else None, want=str(want[k])[:120] if k < len(want) else None)))
                            keep = True
                    if not keep:
                        os.unlink(arp)
            if not keep:
                for p, tag in made:
                    os.unlink(p)
        else:
            bad = []
            if check_file(d, arg, os.path.basename(arg), out, bad):
                out["files"] += 1
                out["samples"].append(os.path.basename(arg))
            out["bad"] += bad[:3]
    except common.DriverCrash as ex:
        out["bad"].append(("crash:" + getattr(ex, "key", ex.kind), dict(what=str(arg)[:200], report=ex.report[-3000:])))
    except common.DriverTimeout:
        out["bad"].append(("hang", dict(what=str(arg)[:200])))
    return out


def job_cli(payload):
    """The command line's own symbol line, for files of several machines listed in ONE run (in both orders): every line must carry
    the index, value and size the library reports and the type / binding / visibility names of THAT file's machine."""
    from vf.props import c19
    seed, machines = payload
    d = common.get_driver()
    out = {"cli_runs": 0, "cli_lines": 0, "bad": []}
    rng = random.Random(seed)
    exe = os.path.join(common.VERIF, "build", common.VARIANT, "dwgrep", "dwgrep")
    env = dict(os.environ); env.update(common.ASAN_ENV)
    os.makedirs(os.path.join(common.RUN, "syms"), exist_ok=True)
    made = []
    try:
        for m in machines:
            syms = gen_symbols(rng, rng.choice(["small", "all"]))
            cu = Die("compile_unit", [("name", "string", b"s.c")])
            f = Forest([Unit(cu, 4, addr_size=8)], machine=m, elfclass=64, big=rng.random() < 0.3, symbols=syms)
            w = dwgen.Writer(f)
            abbrev, info = w.layout()
            p = os.path.join(common.RUN, "syms", "c18cli-%d-%d.o" % (seed, m))
            open(p, "wb").write(dwgen.build_elf(64, f.big, m, [(b".debug_abbrev", abbrev, 1), (b".debug_info", info, 1), (b".debug_str", b"\0", 1)], syms, etype=rng.choice([2, 3])))
            r = d.run("symbol", inp="d:" + common.hx(p), fuel=0, max=2000000, timeout=600, deep=1)
            if r["st"] != "done":
                out["bad"].append(("symbol-query-failed", dict(file=p, st=r["st"], msg=r.get("msg")))); return out
            made.append((p, [c19.elfsym(res[-1]) for res in r["res"]]))
        keep = False
        for order in (made, list(reversed(made))):
            want = b"".join(p.encode() + b":\n" + line + b"\n" for p, lines in order for line in lines)
            try:
                pr = subprocess.run([exe, "-e", "symbol"] + [p for p, _ in order], stdout=subprocess.PIPE, stderr=subprocess.PIPE, env=env, timeout=300, stdin=subprocess.DEVNULL)
            except subprocess.TimeoutExpired:
                out["bad"].append(("cli-hang", dict(files=[p for p, _ in order]))); keep = True; break
            out["cli_runs"] += 1
            out["cli_lines"] += sum(len(l) for _, l in order)
            if pr.returncode not in (0, 1, 2):
                kind, key = common.classify_report(pr.stderr.decode("latin-1"), pr.returncode)
                out["bad"].append(("cli-crash:" + key, dict(files=[p for p, _ in order], stderr=pr.stderr.decode("latin-1")[-1500:]))); keep = True; break
            if pr.stdout != want:
                gl, wl = pr.stdout.split(b"\n"), want.split(b"\n")
                k = next((i for i, (a, b) in enumerate(zip(gl, wl)) if a != b), min(len(gl), len(wl)))
                out["bad"].append(("cli-symbol-line-differs-from-the-library's-values", dict(machines=machines, files=[os.path.basename(p) for p, _ in order], line=k,
                                                                                               got=repr(gl[k][:200]) if k < len(gl) else None, want=repr(wl[k][:200]) if k < len(wl) else None)))
                keep = True; break
        if not keep:
            for p, _ in made:
                os.unlink(p)
    except common.DriverCrash as ex:
        out["bad"].append(("crash:" + getattr(ex, "key", ex.kind), dict(what=str(payload)[:200], report=ex.report[-3000:])))
    except common.DriverTimeout:
        out["bad"].append(("hang", dict(what=str(payload)[:200])))
    return out


def job_cross(payload):
    """Machine-specific codes of different machines are never equal; common codes are."""
    d = common.get_driver()
    out = {"cross": 0, "bad": []}
    em, fam = elfread.elf_names()
    ms = sorted(set([em[a] for a in ("ARM", "SPARC", "PARISC", "MIPS", "X86_64", "PPC64", "NONE") if a in em]))
    for fm, codes in (("stt", list(range(16))), ("stb", list(range(16)))):
        for c in codes:
            for m1 in ms:
                for m2 in ms:
                    if m1 >= m2:
                        continue
                    r = d.run("?eq", inp="u:%d:%s.%d:0,u:%d:%s.%d:0" % (c, fm, m1, c, fm, m2))
                    out["cross"] += 1
                    eq = r["st"] == "done" and len(r["res"]) == 1
                    n1 = elfread.expected_names(fm.upper(), m1, c)
                    n2 = elfread.expected_names(fm.upper(), m2, c)
                    specific = lambda names, m: any(any(nm.startswith("%s_%s_" % (fm.upper(), a)) for a, n in em.items() if n == m) for nm in names)
                    s1, s2 = specific(n1, m1), specific(n2, m2)
                    if (s1 or s2) and eq and set(n1) != set(n2):
                        out["bad"].append(("machine-specific-code-equals-another-machines", dict(family=fm, code=c, m1=m1, m2=m2, n1=n1, n2=n2)))
                    if not s1 and not s2 and c < 10 and not eq:
                        out["bad"].append(("common-code-unequal-across-machines", dict(family=fm, code=c, m1=m1, m2=m2)))
    return out


def run(chk):
    quick = chk.tier == "quick"
    pool = common.Pool()
    tot, ctx, samples = {}, {}, []
    em, fam = elfread.elf_names()
    machines = sorted(set(em.values()))
    machines = [m for m in machines if m < 0x8000]
    rng = chk.rng()
    jobs = []
    reps = 1 if quick else 12
    for rep in range(reps):
        ms = list(machines)
        rng.shuffle(ms)
        for i in range(0, len(ms), 6):
            jobs.append(("gen", (chk.seed * 32452843 + rep * 1000 + i, ms[i:i + 6])))
    # the arch-specific ones several times more
    for rep in range(4 if quick else 40):
        jobs.append(("gen", (chk.seed * 15487469 + rep, [em[a] for a in ("ARM", "SPARC", "PARISC", "MIPS", "X86_64", "PPC64") if a in em])))
    from vf.props import c02
    jobs += [("file", f) for f in c02.sample_files()]
    corpus = dwcorpus.build(quick)
    jobs += [("file", p) for p, linked in corpus if linked][::(6 if quick else 1)]
    zcheck.consume(chk, pool.map(job, jobs), tot, ctx, samples, "C18")
    zcheck.consume(chk, pool.map(job_cross, [0]), tot, ctx, samples, "C18 cross")
    arch = [em[a] for a in ("ARM", "SPARC", "PARISC", "MIPS", "X86_64", "PPC64", "SPARCV9", "ALPHA", "AARCH64") if a in em]
    cli = []
    for rep in range(12 if quick else 200):
        ms = list(arch)
        rng.shuffle(ms)
        cli.append((chk.seed * 49979687 + rep, ms[:rng.randint(2, 4)]))
    zcheck.consume(chk, pool.map(job_cli, cli), tot, ctx, samples, "C18 cli")
    pool.finish()
    chk.cov.update({
        "evaluations": tot.get("symbols", 0) + tot.get("cross", 0),
        "distinct_nontrivial": tot.get("files", 0),
        "rule": "one evaluation = one symbol table entry compared field by field (+3 constant renderings) or one cross-machine equality cell; distinct_nontrivial = files",
        "files": tot.get("files", 0), "generated_files": tot.get("machines", 0), "machines_in_elf_h": len(machines),
        "constant_renderings_checked": tot.get("renderings", 0), "of_which_named_by_elf_h": tot.get("named", 0),
        "cross_machine_cells": tot.get("cross", 0), "ar_archives_of_generated_members_listed": tot.get("archives", 0), "renderings_relative_to_an_elf_h_range_marker_checked": tot.get("relative_renderings", 0), "runs_of_one_compiled_query_over_files_of_different_machines": tot.get("shared_query_runs", 0),
        "command_line_runs_listing_files_of_several_machines": tot.get("cli_runs", 0), "command_line_symbol_lines_compared": tot.get("cli_lines", 0),
        "samples": samples[:6],
    })
    chk.assumptions += ["values of symbols defined in sections of ET_REL files are relocated by libdwfl and not judged; SHN_ABS/SHN_UNDEF symbols and all symbols of ET_EXEC/ET_DYN files are",
                        "names come from the installed elf.h; a code elf.h does not name for the file's machine must not be given another machine's name"]
    if tot.get("symbols", 0) < 2000:
        chk.inconc("too few symbols")


def replay(path):
    w = json.load(open(path))
    print(json.dumps(w, indent=1)[:4000])
    return 0
