"""C01 -- stream semantics: each construct acts on every input stack independently.

Monitors over recorded executions of the real engine (zwdrv, ASan+UBSan, hooks):
  O2 stream decomposition (primary, needs no model):
        results(G P) = (+)_i results(g_i P)  for a producer G of tagged stacks g_1..g_n;
  O1 reference model (vf/zmodel.py): multiset equality always, sequence equality
        when the documentation fixes the order, equal presence of diagnostics.
Workload: exhaustive small ASTs (vf/zenum.py) under a 3-stack producer + seeded
random typed ASTs (vf/zgen.py) with a nesting-pair matrix in the evidence."""
import json, os, random
from vf import common, zast, zgen, zmodel as M, zcmp, zenum

FUEL = 40000
MAXRES = 4000


def tagged_inputs(rng, n, depth, gen):
    """n input stacks of equal depth: a unique string tag at the bottom + payload."""
    stacks = []
    kinds = [rng.choice("csq") for _ in range(depth)]
    for i in range(n):
        vals = [("str", [("#%d" % (i + 1)).encode()])]
        for k in kinds:
            vals.append(gen.lit_int() if k == "c" else gen.lit_str() if k == "s" else gen.lit_seq(1))
        stacks.append(vals)
    return stacks, ["s"] + kinds


def producer(rng, stacks):
    """A program yielding the given stacks, in order, when run on an empty stack."""
    branches = [("cat", list(s)) for s in stacks]
    k = rng.random()
    if k < 0.6 or len(stacks) < 2:
        return ("alt", branches) if len(branches) > 1 else branches[0]
    if k < 0.8:
        # an OR whose first branch fails
        return ("or", [("cat", [("sub", False, (), ("cat", []))] + list(stacks[0])), ("alt", branches)])
    # a let with a multi-yield body selects the branch
    sel = ("let", ("Sel",), ("alt", [("int", i, "dec") for i in range(len(stacks))]))
    body = None
    for i in reversed(range(len(stacks))):
        b = ("cat", list(stacks[i]))
        body = b if body is None else ("if", ("infix", ("read", "Sel"), "==", ("int", i, "dec")), b, body)
    return ("paren", (), ("cat", [sel, body]))


def eng_results(r):
    return [tuple(zcmp.from_engine(v) for v in s) for s in r["res"]]


def eng_key(s):
    return repr([zcmp.strip(v) for v in s])


def check_case(d, prog, stacks, rng_seed, fuel=None, maxres=None, timeout=30.0, mbudget=200000):
    fuel = fuel or FUEL
    maxres = maxres or MAXRES
    """Returns (list of (kind, detail), stats)"""
    bad = []
    info = {"o1": 0, "o1_skipped": 0, "o2": 0, "nres": 0}
    rng = random.Random(rng_seed)
    G = producer(rng, stacks) if stacks else ("cat", [])
    whole = ("cat", [G, prog]) if stacks else prog
    txt = zast.text(whole)
    r = d.run(txt, fuel=fuel, max=maxres, timeout=timeout)
    if r["evbad"]:
        bad.append(("api-contract", dict(text=txt, ev=r["ev"])))
    if r["stray"]:
        bad.append(("stray-stdout", dict(text=txt, n=r["stray"])))
    if (r["st"] == "error" and "fuel" in r["msg"]) or r["st"] == "cut":
        info["fuel"] = 1
        return bad, info
    # ---- O1
    m = M.run(whole, budget=mbudget)
    if m["status"] in ("indeterminate", "budget"):
        info["o1_skipped"] = 1
    else:
        info["o1"] = 1
        why = compare_model(m, r)
        if why:
            bad.append(("O1:" + why, dict(text=txt, model=dict(status=m["status"], msg=m["msg"], diag=m["diag"], ordered=m["ordered"],
                                                                 results=[zcmp.show_stack(s) for s in m["results"]][:12]),
                                          engine=dict(st=r["st"], msg=r.get("msg"), stderr=r["stderr"][:300],
                                                      results=[zcmp.show_stack(s) for s in eng_results(r)][:12] if r["st"] != "reject" else []))))
    # ---- O2: stream decomposition
    if stacks and r["st"] in ("done", "error"):
        parts = []
        err_any = False
        diag_any = False
        ok = True
        for s in stacks:
            t1 = zast.text(("cat", [("cat", list(s)), prog]))
            r1 = d.run(t1, fuel=fuel, max=maxres, timeout=timeout)
            if r1["st"] in ("reject", "cut") or (r1["st"] == "error" and "fuel" in r1["msg"]):
                ok = False
                break
            if r1["st"] == "error":
                err_any = True
            if r1["stderr"]:
                diag_any = True
            parts.append(r1)
        if ok:
            info["o2"] = 1
            if (r["st"] == "error") != err_any:
                bad.append(("O2:error-status", dict(text=txt, whole=r["st"], parts=[p["st"] for p in parts])))
            elif r["st"] == "done":
                whole_ms = sorted(eng_key(s) for s in eng_results(r))
                parts_ms = sorted(eng_key(s) for p in parts for s in eng_results(p))
                info["nres"] = len(whole_ms)
                if whole_ms != parts_ms:
                    lost = multiset_diff(parts_ms, whole_ms)
                    extra = multiset_diff(whole_ms, parts_ms)
                    bad.append(("O2:stream-decomposition", dict(text=txt, lost=lost[:6], extra=extra[:6],
                                                                whole=len(whole_ms), parts=[len(p["res"]) for p in parts])))
                elif bool(r["stderr"]) != diag_any:
                    bad.append(("O2:diagnostics", dict(text=txt, whole=r["stderr"][:200], parts=[p["stderr"][:100] for p in parts])))
    return bad, info


def multiset_diff(a, b):
    b = list(b)
    out = []
    for x in a:
        if x in b:
            b.remove(x)
        else:
            out.append(x)
    return out


def compare_model(m, r):
    """'' if the engine outcome R agrees with the model outcome M, else what differs."""
    if m["status"] == "reject":
        return "" if r["st"] == "reject" else "compiled although the model rejects (%s)" % m["msg"]
    if r["st"] == "reject":
        return "rejected although the model accepts"
    if m["status"] == "error":
        return "" if r["st"] == "error" else "no error raised although the model raises (%s)" % m["msg"]
    if r["st"] != "done":
        return "raised although the model does not"
    er = eng_results(r)
    if len(er) != len(m["results"]):
        return "number of results"
    if not zcmp.results_match(m["results"], er, m["ordered"]):
        if zcmp.results_match(m["results"], er, False):
            return "order of results (documented order)"
        return "result values"
    if not m["closure"] and (m["diag"] > 0) != (len(r["stderr"]) > 0):
        return "diagnostics"
    return ""


def twin_case(rng, opts):
    """(program, input stacks): equal stacks in a row, or stacks that are equal once a binder has popped the value they differ in."""
    g = zgen.Gen(rng, maxdepth=rng.randint(1, opts.get("maxdepth", 4)), err_rate=0.03)
    depth = rng.randint(0, 2)
    base, ts = tagged_inputs(rng, 2, depth, g)
    s0 = [("str", [b"#0"])] + base[0][1:]
    s1 = [("str", [b"#0"])] + base[1][1:]
    if rng.random() < 0.5:
        stacks = rng.choice([[s0, s0], [s0, s0, s1, s1], [s0, s1, s1, s0], [s0, s0, s0]])
        prog = g.program(ts)
    else:
        vals = rng.choice([[0, 1], [1, 0, 0, 1], [0, 0, 1], [2, 1, 2], [1, 1]])
        stacks = [list(s0) + [("int", v, "dec")] for v in vals]
        nm = "Tw"
        body = g.program(ts, names={nm: "c"})
        k = rng.random()
        if k < 0.4:
            # the name decides a condition while the stack is the same
            a, b = g.program(ts, names={nm: "c"}), g.program(ts, names={nm: "c"})
            body = ("if", ("infix", ("read", nm), rng.choice(["==", "<", "!="]), ("int", 1, "dec")), a, b)
        elif k < 0.6:
            body = ("cat", [("sub", rng.random() < 0.5, (), ("infix", ("read", nm), "==", ("int", rng.randint(0, 2), "dec"))), body])
        elif k < 0.75:
            # a closure whose body reads the name: equal start stacks, different steps
            step = ("cat", [("read", nm), ("word", "add"), ("infix", ("cat", []), "<", ("int", rng.randint(3, 7), "dec"))])
            body = ("cat", [("int", 0, "dec"), ("close", rng.choice("*+"), ("paren", (), step))] + ([("word", "drop"), body] if rng.random() < 0.3 else []))
        prog = ("paren", (nm,), body)
    return prog, stacks


def job(payload):
    kind, seed, count, opts = payload
    d = common.get_driver()
    rng = random.Random(seed)
    out = {"n": 0, "o1": 0, "o1_skipped": 0, "o2": 0, "fuel": 0, "nontrivial": 0, "bad": [], "ctx": {}, "samples": [], "distinct": 0}
    seen = set()
    if kind == "random":
        cases = []
        for i in range(count):
            g = zgen.Gen(rng, maxdepth=rng.randint(1, opts.get("maxdepth", 4)), err_rate=opts.get("err_rate", 0.04))
            n = rng.choice([0, 2, 2, 3, 3, 4])
            depth = rng.randint(0, 2)
            stacks, ts = tagged_inputs(rng, n, depth, g) if n else ([], [])
            prog = g.program(ts)
            cases.append((prog, stacks))
    elif kind == "twins":
        # EQUAL stacks in a row (no unique tag to tell them apart): the same stack twice must give everything twice; and stacks that are
        # equal once a binder has popped the one value they differ in, where the program reads that name -- in conditions, assertions, closures
        cases = [twin_case(rng, opts) for i in range(count)]
    elif kind == "focus":
        # one word applied to a STREAM of operand tuples in which an operand often comes "the same again" or changes by little:
        # regular expressions that compile and that cannot be compiled (each stack gets its own verdict and its own diagnostic),
        # needles and haystacks, operands of a wrong type in between
        from vf.zmodel import BAD_ERE
        S = lambda b: ("str", [b])
        pats = sorted(BAD_ERE) + [b"a", b"a.*c", b"", b"z", b"bc", b"abc", b"b"]
        hays = [b"abc", b"a(", b"", b"xyz", b"[b", b"bc"]
        cases = []
        for i in range(count):
            n = rng.randint(3, 6)
            stream = []
            for j in range(n):
                if stream and rng.random() < 0.45:
                    stream.append(stream[-1])
                elif rng.random() < 0.1:
                    stream.append(("int", rng.randint(0, 3), "dec"))       # not a string: a diagnostic, nothing yielded, the stream goes on
                else:
                    stream.append(S(rng.choice(pats)))
            stacks = [[S(("#%d" % (j + 1)).encode()), v] for j, v in enumerate(stream)]
            if rng.random() < 0.3:
                # a LONG sequence, of which several copies are alive: one is appended to for every stack of a stream / in every ALT branch /
                # on every round of a closure, the others are read afterwards and must still be what they were
                I = lambda v: ("int", v, "dec")
                n = rng.choice([63, 64, 65, 70, 130])
                L = ("cap", (), ("alt", [I(i % 7) for i in range(n)]))
                one = lambda v: ("cap", (), I(v))
                k = rng.random()
                if k < 0.35:
                    body = ("cat", [("read", "L"), ("cap", (), ("read", "N")), ("word", "add"), ("word", "length"), ("read", "L"), ("word", "length")])
                    prog = ("cat", [L, ("paren", ("L",), ("cat", [("alt", [I(1), I(2), I(3)]), ("paren", ("N",), body)]))])
                elif k < 0.7:
                    prog = ("cat", [L, ("word", "dup"), ("paren", (), ("alt", [("cat", [one(1), ("word", "add")]), ("cat", [one(2), ("word", "add")]), ("cat", [])])),
                                    ("word", "length"), ("word", "swap"), ("word", "length")])
                else:
                    step = ("cat", [one(7), ("word", "add"), ("infix", ("word", "length"), "<", I(n + 3))])
                    prog = ("cat", [L, ("word", "dup"), ("close", rng.choice("*+"), ("paren", (), step)), ("word", "length"), ("word", "swap"), ("word", "length")])
                cases.append((prog, [[S(b"#1")], [S(b"#2")]] if rng.random() < 0.5 else []))
                continue
            hay = S(rng.choice(hays))
            k = rng.random()
            if k < 0.3:
                body = ("cat", [hay, ("read", "P"), ("word", rng.choice(["?match", "!match"]))])
            elif k < 0.6:
                body = ("infix", hay, rng.choice(["=~", "!~"]), ("read", "P"))
            elif k < 0.8:
                # the pattern is fixed, the subject varies
                body = ("cat", [("read", "P"), S(rng.choice(pats)), ("word", rng.choice(["?match", "!match"]))])
            else:
                body = ("cat", [hay, ("read", "P"), ("word", rng.choice(["?find", "!find", "?starts", "?ends"]))])
            cases.append((("paren", ("P",), body), stacks))
    else:
        # exhaustive: programs are passed in; wrapper = three integer inputs
        cases = []
        for prog in opts["progs"]:
            stacks = [[("str", [b"#1"]), ("int", 0, "dec")], [("str", [b"#2"]), ("int", 1, "dec")], [("str", [b"#3"]), ("int", 2, "dec")]]
            cases.append((prog, stacks))
    for prog, stacks in cases:
        txt = zast.text(prog)
        out["n"] += 1
        if txt not in seen:
            seen.add(txt)
        try:
            bad, info = check_case(d, prog, stacks, rng.getrandbits(32))
        except common.DriverCrash as e:
            bad, info = [("crash:" + getattr(e, "key", e.kind), dict(text=txt, request=e.request[:1500], report=e.report[-3000:]))], {}
            out["bad"].append(bad[0]); continue
        except common.DriverTimeout as e:
            out["bad"].append(("hang", dict(text=txt, request=e.request[:1500]))); continue
        for k in ("o1", "o1_skipped", "o2", "fuel"):
            out[k] += info.get(k, 0)
        if info.get("nres", 0) > 1 or zast.size(prog) >= 4:
            out["nontrivial"] += 1
        for c in set(zast.contexts(prog)):
            key = "%s<%s" % c
            out["ctx"][key] = out["ctx"].get(key, 0) + 1
        if len(out["samples"]) < 2:
            out["samples"].append(zast.text(("cat", [producer(random.Random(1), stacks), prog])) if stacks else txt)
        for what, detail in bad:
            # minimise for a stable key
            if len(out["bad"]) < 2:
                small = minimise(d, prog, stacks, what)
                detail["minimised"] = zast.text(small)
                out["bad"].append((what, detail))
            else:
                out["bad"].append((what, dict(text=detail.get("text"))))
    out["distinct"] = len(seen)
    out["bad"] = out["bad"][:40]
    return out


def minimise(d, prog, stacks, what):
    def pred(c):
        # shrinking can produce programs whose every step is expensive (ever deeper sequences): small budgets,
        # short watchdog, and a timeout just means "not a smaller witness"
        try:
            bad, _ = check_case(d, c, stacks, 1, fuel=3000, maxres=300, timeout=4.0, mbudget=20000)
        except (common.DriverTimeout, common.DriverCrash):
            return False
        return any(w == what for w, _ in bad)
    try:
        return zast.minimize(prog, pred, budget=80)
    except Exception:
        return prog


def run(chk):
    quick = chk.tier == "quick"
    pool = common.Pool()
    jobs = []
    nrand = 24000 if quick else 600000
    per = 250
    for i in range(nrand // per):
        jobs.append(("random", chk.seed * 1000003 + i, per, {"maxdepth": 4 if i % 3 else 5}))
    for i in range(4 if quick else 80):
        jobs.append(("focus", chk.seed * 7368787 + i, 120, {}))
    for i in range(12 if quick else 300):
        jobs.append(("twins", chk.seed * 9576890767 + i, 150, {"maxdepth": 3}))
    Z = zenum.enum(4 if quick else 5, full=True)
    progs = [p for k in sorted(Z) for p in Z[k]]
    if not quick and len(progs) > 80000:
        rng = chk.rng("enum")
        small = [p for k in sorted(Z) if k <= 4 for p in Z[k]]
        progs = small + rng.sample(Z[5], 60000)
    for i in range(0, len(progs), 150):
        jobs.append(("enum", 7, 0, {"progs": progs[i:i + 150]}))
    tot = {"n": 0, "o1": 0, "o1_skipped": 0, "o2": 0, "fuel": 0, "nontrivial": 0, "distinct": 0}
    ctx = {}
    samples = []
    for r in pool.map(job, jobs):
        if "crash" in r:
            chk.crash_violation(r, "C01 workload"); continue
        if "timeout" in r:
            chk.violation("hang", {"what": "driver did not answer within the watchdog", "request": r["timeout"]["request"][:2000]}); continue
        if "harness_error" in r:
            chk.inconc(r["harness_error"][-800:]); continue
        for k in tot:
            tot[k] += r[k]
        for k, v in r["ctx"].items():
            ctx[k] = ctx.get(k, 0) + v
        if len(samples) < 6:
            samples += r["samples"][:1]
        for what, detail in r["bad"]:
            chk.violation("%s:%s" % (what, detail.get("minimised", detail.get("text", "?"))[:200]), detail)
    hs = pool.hook_stats()
    pool.finish()
    constructs = sorted(set(k.split("<")[0] for k in ctx))
    contexts = sorted(set(k.split("<")[1] for k in ctx))
    empty_cells = [c + "<" + x for c in constructs for x in contexts if (c + "<" + x) not in ctx]
    chk.cov.update({
        "evaluations": tot["n"],
        "distinct_nontrivial": min(tot["nontrivial"], tot["distinct"]),
        "rule": "one evaluation = one program run under a producer of 0-4 tagged input stacks (whole + per input); distinct = distinct program "
                "texts per worker batch; non-trivial = program of >= 4 AST nodes or yielding > 1 result",
        "exhaustive": False,
        "exhaustive_part": "all %d programs of vf/zenum.py up to %d constructors over the reduced alphabet, each under the 3-stack producer" % (len(progs), 4 if quick else 5),
        "random_programs": nrand,
        "O1_model_comparisons": tot["o1"], "O1_skipped_indeterminate": tot["o1_skipped"],
        "O2_stream_decompositions": tot["o2"], "skipped_fuel": tot["fuel"],
        "nesting_matrix_nonempty_cells": len(ctx), "nesting_matrix_empty_cells": empty_cells[:40],
        "nesting_matrix": {k: ctx[k] for k in sorted(ctx)},
        "hook_counters": {k: hs.get(k) for k in ("scon_new", "scon_con", "scon_des", "scon_get", "stack_checks", "fuel_exhausted")},
        "state_types_seen": sorted((hs.get("state_types") or {}).keys()),
        "samples": samples,
    })
    chk.assumptions += ["vf/zmodel.py reads doc/syntax.rst and the word docstrings correctly (DESIGN.md appendix A)",
                        "order is compared only where the documentation fixes it; otherwise multisets"]
    if tot["o1"] < 1000 or tot["o2"] < 1000:
        chk.inconc("too few comparisons (o1=%d o2=%d)" % (tot["o1"], tot["o2"]))


def replay(path):
    w = json.load(open(path))
    print(json.dumps(w, indent=1)[:3000])
    d = common.Driver()
    t = w["witness"].get("minimised") or w["witness"].get("text")
    if t:
        r = d.run(w["witness"].get("text"), fuel=FUEL)
        print("engine now:", r["st"], r.get("msg"), len(r.get("res", [])), "results")
    return 0
