"""C04 -- assertions and sub-expression contexts never disturb the surrounding stack.

Monitors (all on recorded engine results, no model needed):
  partition:  results(P) = results(P ?(E)) (+) results(P !(E))   (whole serialised stacks)
  infix:      P (E1 op E2) yields only stacks of P, each at most as often
  let:        P let X := E;  = each P-stack repeated |E on it| times, |.| taken from P [E] length
  capture:    P [E] = each P-stack once with one extra sequence whose elements are E's TOS values
  word pairs: every ?w / !w of the whole vocabulary on operands of every type: yields the
              input unchanged or nothing, never both, neither when a diagnostic is printed
P = producers of tagged stacks (core) and `entry` / `entry attribute` on sample DWARF files."""
import json, os, random, glob
from vf import common, zast, zgen, zmodel as M, zcmp, zcheck
from vf.props import c01

SAMPLES = ["typedef.o", "nontrivial-types.o", "dwz-partial", "enum.o", "a1.out", "bitcount.o", "char_16_32.o", "aranges.o"]
DW_E = ["child", "parent", "root", "@AT_name", "@AT_type", "attribute", "attribute value", "child child", "@AT_decl_line",
        "@AT_name length", "child ?TAG_formal_parameter", "@AT_type @AT_name", "label", "offset", "abbrev", "unit", "child*",
        "@AT_sibling", "attribute label", "name", "@AT_location", "@AT_location elem", "parent parent", "?root", "!root",
        "@AT_byte_size 4 ?gt", "drop", "dup dup", "1 2", "\"x\" add", "child @AT_name \"%s\"", "?(child) parent"]
OPS = ["==", "!=", "<", "<=", ">", ">="]


def multiset(stacks):
    return sorted(zcheck.exact_key(s) for s in stacks)


def sub_multiset(a, b):
    """is a <= b as multisets (lists sorted)?"""
    b = list(b)
    for x in a:
        if x in b:
            b.remove(x)
        else:
            return False
    return True


def run_q(d, text, inp=""):
    return d.run(text, inp=inp, fuel=zcheck.FUEL * 5, max=zcheck.MAXRES * 5)


def relations(d, ptxt, etxt, e2txt, inp, bad, out, tag, bound_e=None):
    """All C04 relations for producer text PTXT and sub-expression texts."""
    def q(t):
        return run_q(d, t, inp)
    rp = q(ptxt)
    if rp["st"] != "done" or not rp["res"]:
        return
    P = zcheck.eng_results_any(rp)
    mP = multiset(P)
    if bound_e is not None:
        # the assertion forms with a binding block: the names take their values from the sub-expression's COPY of the stack
        ids, eb = bound_e
        rbp = q("%s ?( | %s | %s )" % (ptxt, ids, eb))
        rbn = q("%s !( | %s | %s )" % (ptxt, ids, eb))
        if rbp["st"] == "done" and rbn["st"] == "done":
            out["partition_bound"] = out.get("partition_bound", 0) + 1
            a, b = multiset(zcheck.eng_results_any(rbp)), multiset(zcheck.eng_results_any(rbn))
            if sorted(a + b) != mP:
                bad.append(("partition:with-binding-block", dict(producer=ptxt, E=eb, ids=ids, input=tag, P=len(mP), pos=len(a), neg=len(b))))
    r_pos = q("%s ?( %s )" % (ptxt, etxt))
    r_neg = q("%s !( %s )" % (ptxt, etxt))
    w = dict(producer=ptxt, E=etxt, input=tag)
    if r_pos["st"] == "reject" or r_neg["st"] == "reject":
        return
    if r_pos["st"] == "done" and r_neg["st"] == "done":
        out["partition"] += 1
        a, b = multiset(zcheck.eng_results_any(r_pos)), multiset(zcheck.eng_results_any(r_neg))
        if sorted(a + b) != mP:
            bad.append(("partition", dict(w, P=len(mP), pos=len(a), neg=len(b))))
        if len(a) and len(b):
            out["partition_both_nonempty"] += 1
    elif zcheck.skipped(r_pos) or zcheck.skipped(r_neg):
        return
    else:
        # E raises on some stack: both forms must raise
        if (r_pos["st"] == "error") != (r_neg["st"] == "error"):
            # legitimately differs: ?(E) stops at E's first result, a later stack may raise in only one form
            pass
    # infix
    op = OPS[len(etxt) % len(OPS)]
    r_in = q("%s ( %s %s %s )" % (ptxt, etxt, op, e2txt))
    if r_in["st"] == "done":
        out["infix"] += 1
        if not sub_multiset(multiset(zcheck.eng_results_any(r_in)), mP):
            bad.append(("infix-changes-stack", dict(w, op=op, E2=e2txt)))
    # capture and let
    r_cap = q("%s [ %s ]" % (ptxt, etxt))
    if r_cap["st"] == "done":
        out["capture"] += 1
        caps = zcheck.eng_results_any(r_cap)
        below = multiset([s[:-1] for s in caps])
        if below != mP or any(s[-1][0] != "q" for s in caps):
            bad.append(("capture-disturbs-stack", dict(w, P=len(mP), got=len(caps))))
        else:
            r_let = q("%s let Cx04 := %s ;" % (ptxt, etxt))
            if r_let["st"] == "done":
                out["let"] += 1
                want = sorted(zcheck.exact_key(s[:-1]) for s in caps for _ in range(len(s[-1][1])))
                if multiset(zcheck.eng_results_any(r_let)) != want:
                    bad.append(("let-disturbs-stack", dict(w, want=len(want), got=len(r_let["res"]))))
            # the captured elements are E's TOS values in plain context
            # (E in parentheses: an infix operator at the start of E would otherwise take the whole producer as its left operand)
            r_plain = q("%s ( %s )" % (ptxt, etxt))
            if r_plain["st"] == "done":
                tops = sorted(repr(zcmp.strip(s[-1])) for s in zcheck.eng_results_any(r_plain) if s)
                elems = sorted(repr(zcmp.strip(x)) for s in caps for x in s[-1][1])
                if len(tops) == len(r_plain["res"]) and tops != elems:
                    bad.append(("capture-elements", dict(w, plain=len(tops), captured=len(elems))))


def assertion_body(rng, depth):
    """A sub-expression made of assertions only (words, ?N, infix, nested ?( ) / !( )), joined by concatenation, ALT and OR."""
    I1 = ("int", 1, "dec")
    atoms = [("word", "?empty"), ("word", "!empty"), ("word", "?root"), ("word", "!root"), ("word", "?haschildren"), ("npos", True, 0), ("npos", False, 1),
             ("infix", ("cat", []), "==", I1), ("infix", ("word", "length"), ">", I1), ("sub", True, (), ("cat", [I1, ("word", "?eq")])),
             ("sub", False, (), ("cat", [I1, ("word", "?eq")])), ("sub", True, (), ("cat", [("str", [b"("]), ("word", "?match")])),
             ("sub", True, (), ("cat", [("str", [b"a"]), ("word", "?find")])), ("word", "?AT_name"), ("word", "!TAG_subprogram")]

    def comb(dp):
        k = rng.random()
        if dp == 0 or k < 0.3:
            return rng.choice(atoms)
        parts = [comb(dp - 1) for _ in range(rng.randint(2, 3))]
        return (rng.choice(["alt", "or", "cat"]), parts) if k < 0.9 else ("sub", rng.random() < 0.5, (), ("alt", parts))
    return comb(depth)


def job_core(payload):
    seed, count = payload
    d = common.get_driver()
    rng = random.Random(seed)
    out = {"n": 0, "partition": 0, "partition_both_nonempty": 0, "infix": 0, "capture": 0, "let": 0, "bad": [], "ctx": {}, "samples": []}
    for i in range(count):
        g = zgen.Gen(rng, maxdepth=rng.randint(1, 3), err_rate=0.08)
        n = rng.randint(1, 4)
        stacks, ts = c01.tagged_inputs(rng, n, rng.randint(0, 4), g)
        ptxt = zast.text(c01.producer(rng, stacks))
        bound = rng.random() < 0.3
        if bound:
            # names bound to a sequence and a string; reads of them lie on every stack, and the sub-expression may read the same
            # names again and work on what it reads (append, concatenate): the copies on the surrounding stack must stay as they were
            ts = ts + ["q", "s"]
            e = g.anyprog(ts, {"Sq04": "q", "St04": "s"}, rng.randint(1, 3))
            if rng.random() < 0.6:
                e = ("cat", [("read", "Sq04"), rng.choice([("cap", (), ("int", 2, "dec")), ("read", "Sq04"), ("elist",)]), ("word", "add"), e])
            e2 = g.push(ts, {"Sq04": "q", "St04": "s"}, 1)[0]
        else:
            e = g.anyprog(ts, {}, rng.randint(0, 3))
            e2 = g.push(ts, {}, 1)[0]
        if rng.random() < 0.15:
            # a body made of assertions only, some of which do not apply to what is on the stack (they complain and yield nothing --
            # which inside ?( ) / !( ) is just "E yields nothing"): joined by concatenation, ALT and OR, nested
            e = assertion_body(rng, rng.randint(1, 2))
            out["assertion_only_bodies"] = out.get("assertion_only_bodies", 0) + 1
        etxt, e2txt = zast.text(("paren", (), e)) if e[0] in ("alt", "or") else zast.text(e), zast.text(("paren", (), e2))
        blockname = None
        k = rng.random()
        if k < 0.05:
            # sub-expressions that are empty, or nothing but always-yielding wrappers around nothing
            etxt = rng.choice(["( )", "[ ( ) ]", "( ) *", "{ }", "?( )", "( ) ?", "( , )", "( ( ) )", "!( !( ) )", "( ) ( )"])
            out["empty_bodies"] = out.get("empty_bodies", 0) + 1
        elif k < 0.12 and not bound:
            # the sub-expression is a LONE name bound to a block: reading it applies the block -- to the sub-expression's copy of the stack
            blockname = rng.choice(["{ drop 5 }", "{ ( 1 , 2 ) }", "{ !( 1 == 1 ) }", "{ swap }", "{ drop drop 7 }", "{ dup }", "{ 9 }", "{ }"])
            etxt = rng.choice(["Bk04", "( Bk04 )", "Bk04 ( )"])
            out["lone_block_names"] = out.get("lone_block_names", 0) + 1
        bound_e = None
        if len(ts) >= 2 and rng.random() < 0.5:
            nb = rng.randint(1, min(2, len(ts) - 1))
            nms = ["Ba04", "Bb04"][:nb]
            env = {"Sq04": "q", "St04": "s"} if bound else {}
            env.update({nm: t for nm, t in zip(nms, ts[-nb:])})
            eb = g.anyprog(ts[:-nb], env, rng.randint(0, 2))
            if rng.random() < 0.6:
                eb = ("cat", [("read", nms[0]), eb])
            bound_e = (" ".join(nms), zast.text(("paren", (), eb)) if eb[0] in ("alt", "or") else zast.text(eb))
        if rng.random() < 0.4:
            # values with non-zero positions, of several types, at the bottom of every stack (they are part of "the surrounding stack")
            items = rng.sample(['[ 7 ]', '"s"', '5', '[ [ ] , 1 ]', '[ ]', '0x10', '[ "a" ]'], rng.randint(2, 3))
            ptxt = "[ %s ] elem ( %s )" % (" , ".join(items), ptxt)
            out["positioned"] = out.get("positioned", 0) + 1
        out["n"] += 1
        zcheck.tally_ctx(out, ("sub", True, (), e))
        if len(out["samples"]) < 2:
            out["samples"].append("%s ?( %s )" % (ptxt, etxt))
        bad = []
        try:
            if bound:
                out["bound_reads"] = out.get("bound_reads", 0) + 1
                relations(d, 'let Sq04 := [ 1 , [ 2 ] ] ; let St04 := "ab" ; ( %s ) Sq04 St04' % ptxt, etxt, e2txt, "", bad, out, "core", bound_e)
            elif blockname is not None:
                relations(d, "let Bk04 := %s ; ( %s )" % (blockname, ptxt), etxt, e2txt, "", bad, out, "core", bound_e)
            else:
                relations(d, "( %s )" % ptxt, etxt, e2txt, "", bad, out, "core", bound_e)
        except common.DriverCrash as ex:
            bad.append(("crash:" + getattr(ex, "key", ex.kind), dict(text=ptxt + " // " + etxt, report=ex.report[-3000:])))
        except common.DriverTimeout as ex:
            bad.append(("hang", dict(text=ptxt + " // " + etxt)))
        out["bad"] += bad[:5]
    out["bad"] = out["bad"][:40]
    return out


def job_dwarf(payload):
    path, raw, es = payload
    d = common.get_driver()
    out = {"n": 0, "partition": 0, "partition_both_nonempty": 0, "infix": 0, "capture": 0, "let": 0, "bad": [], "ctx": {}, "samples": []}
    inp = ("r:" if raw else "d:") + common.hx(path)
    for ptxt in ("entry", "entry attribute", "unit root child"):
        for etxt in es:
            out["n"] += 1
            bad = []
            try:
                relations(d, ptxt, etxt, "1", inp, bad, out, os.path.basename(path) + (":raw" if raw else ""))
            except common.DriverCrash as ex:
                bad.append(("crash:" + getattr(ex, "key", ex.kind), dict(text=ptxt + " // " + etxt, file=path, report=ex.report[-3000:])))
            except common.DriverTimeout:
                bad.append(("hang", dict(text=ptxt + " // " + etxt, file=path)))
            out["bad"] += bad[:3]
    if len(out["samples"]) < 1:
        out["samples"].append("%s: entry ?( %s )" % (path, es[0]))
    out["bad"] = out["bad"][:40]
    return out


def job_words(payload):
    """Every ?w / !w pair on every operand: unchanged or nothing; never both; neither on diagnostics."""
    words, operands = payload
    d = common.get_driver()
    out = {"pairs": 0, "held": 0, "nothold": 0, "neither_diag": 0, "bad": []}
    for inp, tag in operands:
        base = d.run("", inp=inp)
        if base["st"] != "done" or len(base["res"]) != 1:
            out["bad"].append(("harness-operand", dict(operand=tag, st=base["st"], msg=base.get("msg")))); continue
        ident = json.dumps(base["res"][0], sort_keys=True)
        for w in words:
            out["pairs"] += 1
            res = {}
            try:
                for flav in "?!":
                    r = d.run(flav + w, inp=inp, fuel=200000, max=10)
                    res[flav] = r
            except common.DriverCrash as ex:
                out["bad"].append(("crash:" + getattr(ex, "key", ex.kind), dict(word=w, operand=tag, report=ex.report[-2500:]))); continue
            except common.DriverTimeout:
                out["bad"].append(("hang", dict(word=w, operand=tag))); continue
            ok = {}
            for flav, r in res.items():
                if r["st"] == "error":
                    ok[flav] = "raise"; continue   # stack underflow on a too-shallow stack
                if r["st"] != "done":
                    out["bad"].append(("assertion-word-status", dict(word=flav + w, operand=tag, st=r["st"], msg=r.get("msg")))); ok[flav] = "x"; continue
                if len(r["res"]) > 1:
                    out["bad"].append(("assertion-yields-more-than-once", dict(word=flav + w, operand=tag, n=len(r["res"])))); ok[flav] = "x"; continue
                if len(r["res"]) == 1 and json.dumps(r["res"][0], sort_keys=True) != ident:
                    out["bad"].append(("assertion-changes-stack", dict(word=flav + w, operand=tag))); ok[flav] = "x"; continue
                if not r["in_same"]:
                    out["bad"].append(("assertion-modifies-input", dict(word=flav + w, operand=tag)))
                ok[flav] = "y" if r["res"] else ("d" if r["stderr"] else "n")
            a, b = ok.get("?"), ok.get("!")
            if "x" in (a, b) or "raise" in (a, b):
                continue
            if a == "y" and b == "y":
                out["bad"].append(("both-flavours-hold", dict(word=w, operand=tag)))
            elif a == "d" or b == "d":
                if a == "y" or b == "y":
                    out["bad"].append(("holds-despite-diagnostic", dict(word=w, operand=tag, pos=a, neg=b)))
                elif a != b:
                    out["bad"].append(("diagnostic-in-one-flavour-only", dict(word=w, operand=tag, pos=a, neg=b)))
                else:
                    out["neither_diag"] += 1
            elif a == "n" and b == "n":
                out["bad"].append(("neither-flavour-holds-without-diagnostic", dict(word=w, operand=tag)))
            else:
                out["held" if a == "y" else "nothold"] += 1
    out["bad"] = out["bad"][:60]
    return out


def repeated_ops_file():
    """Location expressions in which one operation occurs once, twice, three and five times (?OP_x / !OP_x on the whole expression)."""
    from vf import dwgen
    D = dwgen.Die
    exprs = {b"v1": [("breg7", 0), ("deref",)],
             b"v2": [("breg7", 0), ("breg7", 8), ("plus",), ("deref",), ("deref",)],
             b"v3": [("dup",), ("dup",), ("dup",), ("drop",), ("drop",), ("drop",), ("breg7", 0)],
             b"v5": [("lit0",)] * 5 + [("plus",)] * 4 + [("stack_value",)]}
    kids = [D("variable", [("name", "string", nm), ("location", "exprloc", ex)]) for nm, ex in sorted(exprs.items())]
    root = D("compile_unit", [("name", "string", b"rep.c")], kids)
    os.makedirs(os.path.join(common.RUN, "C04"), exist_ok=True)
    path = os.path.join(common.RUN, "C04", "repeated-ops.o")
    dwgen.write(dwgen.Forest([dwgen.Unit(root, version=4)]), path)
    return path, sorted(exprs)


def operand_pool():
    t = os.path.join(common.REPO, "tests")
    rp, rnames = repeated_ops_file()
    rep = [("d:" + common.hx(rp) + ",q:" + common.hx('entry (name == "%s") @AT_location' % nm.decode()), "loclist_elem:" + nm.decode()) for nm in rnames]
    return rep + operand_pool_fixed(t)


def operand_pool_fixed(t):
    f = "d:" + common.hx(os.path.join(t, "nontrivial-types.o"))
    fr = "r:" + common.hx(os.path.join(t, "nontrivial-types.o"))
    fa = "d:" + common.hx(os.path.join(t, "a1.out"))
    fl = "d:" + common.hx(os.path.join(t, "bitcount.o"))
    def q(base, query):
        return base + ",q:" + common.hx(query)
    return [
        ("i:5:dec:0", "const"), ("i:5:dec:1", "const@1"), ("s:6162:2", "str@2"), ("s:61:0,u:7:hex:3", "str,const@3"), ("u:1:bool:0", "bool"), ("s:616263:0", "str"), (q("", "[1, 2]"), "seq"), (q("", "{1}"), "closure"),
        (f, "dwarf"), (q(f, "unit"), "cu"), (q(f, "entry ?TAG_subprogram"), "die"), (q(fr, "entry ?TAG_subprogram"), "die-raw"),
        (q(f, "entry attribute"), "attr"), (q(f, "entry ?AT_decl_line attribute ?AT_decl_line"), "attr-decl_line"),
        (q(fl, "entry @AT_location"), "loclist_elem"), (q(fl, "entry @AT_location elem"), "loclist_op"),
        (q("", "1 10 aset"), "aset"), (q(fa, "symbol"), "elfsym"), (q(f, "entry abbrev"), "abbrev"),
        (q(f, "entry abbrev attribute"), "abbrev_attr"), (q(f, "abbrev"), "abbrev_unit"),
        (q("", "0 0x10 aset 2 3 aset"), "aset,aset-inside"), (q("", "0 0x10 aset 8 0x20 aset"), "aset,aset-overlapping"), (q("", "0 0x10 aset 0x20 0x30 aset"), "aset,aset-disjoint"),
        (q("", "0 0x10 aset 5"), "aset,const"), (q("", "[1, 2, 3] [2]"), "seq,seq-infix"), (q("", "\"abc\" \"c\""), "str,str-suffix"), (q("", "[1, 2] 1"), "seq,const"),
        (q("", '"abc" "("'), "str,str-bad-regex"), (q("", '"abc" "a{2,1}"'), "str,str-bad-regex2"), (q("", '"abc" "[a"'), "str,str-bad-regex3"), (q("", '"abc" "^a.c$"'), "str,str-regex"),
        (q("", "1 \"a\""), "const,str"), (q("", "\"abc\" \"b\""), "str,str"), (q("", "[1] [1]"), "seq,seq"), (q("", "3 4"), "const,const"),
        (q(f, "entry ?TAG_subprogram dup"), "die,die"), ("", "empty stack"),
    ]


def run(chk):
    quick = chk.tier == "quick"
    pool = common.Pool()
    tot, ctx, samples = {}, {}, []
    n = 6000 if quick else 150000
    zcheck.consume(chk, pool.map(job_core, [(chk.seed * 104729 + i, 100) for i in range(n // 100)]), tot, ctx, samples, "C04 core")
    tdir = os.path.join(common.REPO, "tests")
    files = [os.path.join(tdir, f) for f in SAMPLES if os.path.exists(os.path.join(tdir, f))]
    if not quick:
        files = sorted(set(files + [p for p in glob.glob(os.path.join(tdir, "*")) if os.path.isfile(p) and open(p, "rb").read(4) == b"\x7fELF"]))
    rng = chk.rng("dw")
    jobs = []
    for f in files:
        for raw in (False, True):
            es = list(DW_E)
            rng.shuffle(es)
            for i in range(0, len(es), 8):
                jobs.append((f, raw, es[i:i + 8]))
    zcheck.consume(chk, pool.map(job_dwarf, jobs), tot, ctx, samples, "C04 dwarf")
    # assertion word pairs of the whole vocabulary
    d = common.Driver()
    voc = d.req("voc")["words"]
    d.kill()
    aw = sorted(set(w[1:] for w in voc if w[0] in "?!" and len(w) > 1 and (w[1].isalnum() or w[1] == "_")))
    missing = [w for w in aw if ("?" + w) not in voc or ("!" + w) not in voc]
    for w in missing:
        chk.violation("assertion-word-without-twin:" + w, dict(word=w))
    aw = [w for w in aw if w not in missing]
    # the position assertions ?N / !N are not vocabulary words: both flavours of several N, on operands at positions 0, 1, 2
    aw += ["0", "1", "2", "3", "17"]
    ops = operand_pool()
    wjobs = []
    step = 40
    for i in range(0, len(aw), step):
        for j in range(0, len(ops), 6):
            wjobs.append((aw[i:i + step], ops[j:j + 6]))
    wt = {}
    for r in pool.map(job_words, wjobs):
        if "crash" in r or "timeout" in r or "harness_error" in r:
            chk.inconc(str(r)[:500]); continue
        for k in ("pairs", "held", "nothold", "neither_diag"):
            wt[k] = wt.get(k, 0) + r[k]
        for what, detail in r["bad"]:
            if what.startswith("harness"):
                chk.inconc(str(detail)); continue
            chk.violation("%s:%s:%s" % (what, detail.get("word"), detail.get("operand")), detail)
    hs = pool.hook_stats()
    pool.finish()
    chk.cov.update({
        "evaluations": tot.get("n", 0) + wt.get("pairs", 0),
        "distinct_nontrivial": tot.get("partition_both_nonempty", 0) + wt.get("held", 0),
        "rule": "one evaluation = one (producer, sub-expression) pair run through all relations, or one (?w/!w pair, operand) cell; "
                "non-trivial = partition in which both ?(E) and !(E) yielded something, or a word pair whose positive flavour held",
        "partitions_compared": tot.get("partition", 0), "partitions_with_binding_blocks_compared": tot.get("partition_bound", 0), "infix_checked": tot.get("infix", 0),
        "captures_checked": tot.get("capture", 0), "lets_checked": tot.get("let", 0),
        "producers_with_positioned_values_below": tot.get("positioned", 0), "producers_with_reads_of_bound_names_on_the_stack": tot.get("bound_reads", 0),
        "dwarf_files": [os.path.basename(f) for f in files],
        "assertion_word_pairs_in_vocabulary": len(aw), "operand_kinds": [t for _, t in ops],
        "word_pair_cells": wt.get("pairs", 0), "cells_positive_held": wt.get("held", 0), "cells_negative_held": wt.get("nothold", 0),
        "cells_neither_with_diagnostic": wt.get("neither_diag", 0),
        "samples": samples[:6],
    })
    if tot.get("partition", 0) < 500 or wt.get("pairs", 0) < 1000:
        chk.inconc("too few events")


def replay(path):
    w = json.load(open(path))
    print(json.dumps(w, indent=1)[:3000])
    return 0
