"""C02 -- the raw view reports exactly the DIE tree stored in .debug_info.

Monitor: ground truth by construction (vf/dwgen.py + vf/dwforest.py: the model the bytes
were produced from) and independent decoding (llvm-dwarfdump-14 -v) vs what the engine's
raw view enumerates: every unit and every DIE exactly once, in section pre-order, with true
offset, tag, parent, unit, child flag and the (name, form) list of its attributes in stored
order; the same tree must come out of `raw unit root` + recursive `child`."""
import glob, json, os, random
from vf import common, zcheck, dwgen, dwforest, dwdump, dwcorpus

Q_ENTRY = "raw entry [offset, label value, (?haschildren 1 || 0), (parent offset || -1), root offset, [attribute [label value, form value]]]"
Q_UNIT = "raw unit [root offset, version]"
Q_CHILD = "raw unit root (child*) [offset, [child offset]]"


def seqvals(v):
    return [x for x in v["v"]]


def num(v):
    return int(v["v"])


def engine_listing(d, path):
    inp = "d:" + common.hx(path)
    r = d.run(Q_ENTRY, inp=inp, fuel=0, max=5000000, timeout=600)
    if r["st"] != "done":
        return None, "entry query: %s %s" % (r["st"], r.get("msg"))
    dies = []
    for s in r["res"]:
        e = seqvals(s[-1])
        dies.append(dict(offset=num(e[0]), tag=num(e[1]), hc=bool(num(e[2])), parent=num(e[3]), root=num(e[4]),
                         attrs=[(num(seqvals(a)[0]), num(seqvals(a)[1])) for a in seqvals(e[5])], pos=s[-2]["p"] if len(s) > 1 else None))
    ru = d.run(Q_UNIT, inp=inp, fuel=0, max=100000, timeout=600)
    if ru["st"] != "done":
        return None, "unit query: %s" % ru.get("msg")
    units = [(num(seqvals(s[-1])[0]), num(seqvals(s[-1])[1])) for s in ru["res"]]
    rc = d.run(Q_CHILD, inp=inp, fuel=0, max=5000000, timeout=600)
    if rc["st"] != "done":
        return None, "child query: %s" % rc.get("msg")
    children = {}
    order = []
    for s in rc["res"]:
        e = seqvals(s[-1])
        off = num(e[0])
        if off in children:
            children[off] = None      # visited twice
        else:
            children[off] = [num(x) for x in seqvals(e[1])]
        order.append(off)
    return dict(dies=dies, units=units, children=children, child_order=order, stderr=r["stderr"] + ru["stderr"] + rc["stderr"]), None


def compare(truth_units, eng, tag, bad, check_children=True):
    """truth_units: [(root offset, version, [(offset, tag, parent, has_children, [(at, form)])])]"""
    tdies = [(root,) + d for root, ver, dies in truth_units for d in dies]
    if [(r, v) for r, v, _ in truth_units] != eng["units"]:
        bad.append(("units-differ", dict(file=tag, want=[(r, v) for r, v, _ in truth_units][:12], got=eng["units"][:12])))
    if len(tdies) != len(eng["dies"]):
        toffs = [t[1] for t in tdies]
        eoffs = [e["offset"] for e in eng["dies"]]
        missing = [hex(o) for o in toffs if o not in set(eoffs)][:6]
        extra = [hex(o) for o in eoffs if o not in set(toffs)][:6]
        dup = [hex(o) for o in set(eoffs) if eoffs.count(o) > 1][:6]
        bad.append(("DIE-count-differs", dict(file=tag, want=len(tdies), got=len(eng["dies"]), missing=missing, invented=extra, duplicated=dup)))
        return
    for i, (t, e) in enumerate(zip(tdies, eng["dies"])):
        root, off, tg, parent, hc, attrs = t
        if e["offset"] != off:
            bad.append(("DIE-order-or-offset", dict(file=tag, index=i, want=hex(off), got=hex(e["offset"])))); return
        if e["tag"] != tg:
            bad.append(("tag-differs", dict(file=tag, die=hex(off), want=tg, got=e["tag"])))
        if e["parent"] != parent:
            bad.append(("parent-differs", dict(file=tag, die=hex(off), want=hex(parent) if parent >= 0 else None, got=hex(e["parent"]) if e["parent"] >= 0 else None)))
        if e["root"] != root:
            bad.append(("unit-attribution-differs", dict(file=tag, die=hex(off), want=hex(root), got=hex(e["root"]))))
        if e["hc"] != hc:
            bad.append(("haschildren-differs", dict(file=tag, die=hex(off), want=hc, got=e["hc"])))
        if e["attrs"] != attrs:
            bad.append(("attributes-differ", dict(file=tag, die=hex(off), want=attrs, got=e["attrs"])))
        if e["pos"] is not None and e["pos"] != i:
            bad.append(("entry-position-numbering", dict(file=tag, die=hex(off), want=i, got=e["pos"])))
        if len(bad) > 8:
            return
    if not check_children:
        return       # offsets are not unique across a main and a supplementary file
    # child-based traversal gives the same tree
    want_children = {}
    for root, off, tg, parent, hc, attrs in tdies:
        want_children.setdefault(off, [])
        if parent >= 0:
            want_children[parent].append(off)
    for off, ch in want_children.items():
        got = eng["children"].get(off, "missing")
        if got != ch:
            bad.append(("child-traversal-differs", dict(file=tag, die=hex(off), want=[hex(x) for x in ch][:10], got=[hex(x) for x in got][:10] if isinstance(got, list) else got)))
            break
    if set(eng["children"]) - set(want_children):
        bad.append(("child-traversal-invents-DIEs", dict(file=tag, extra=[hex(x) for x in list(set(eng["children"]) - set(want_children))[:6]])))


def job_forest(payload):
    seed, count = payload
    d = common.get_driver()
    rng = random.Random(seed)
    out = {"forests": 0, "dies": 0, "units": 0, "selfcheck_fail": 0, "bad": [], "samples": [], "shapes": {}}
    os.makedirs(os.path.join(common.RUN, "forests"), exist_ok=True)
    for i in range(count):
        shape = rng.choice(["plain", "plain", "imports", "imports", "deep", "empty", "many", "chain"])
        f = dwforest.gen_forest(rng, shape)
        path = os.path.join(common.RUN, "forests", "c02-%d-%d.o" % (seed, i))
        dwgen.write(f, path)
        truth = dwforest.raw_listing(f)
        # generator self-check against the independent dumper: a mismatch is a harness failure, not a violation
        du, ok = dwdump.dump_info(path)
        dt = [(u["dies"][0]["offset"] if u["dies"] else None, u["version"],
               [(x["offset"], x["tag"], x["parent"] if x["parent"] is not None else -1, x["has_children"], x["attrs"]) for x in u["dies"]]) for u in du]
        if not ok or dt != [(r, v, [(o, t, p, h, a) for (o, t, p, h, a) in dies]) for r, v, dies in truth]:
            out["selfcheck_fail"] += 1
            if len(out["bad"]) < 3:
                out["bad"].append(("harness:generator-selfcheck", dict(file=path, shape=shape)))
            continue
        # a header-only unit has no root and no DIEs: it cannot be represented as a unit value and is not listed
        truth = [t for t in truth if t[0] is not None]
        try:
            eng, err = engine_listing(d, path)
            if eng is None:
                out["bad"].append(("raw-view-query-failed", dict(file=path, shape=shape, err=err))); continue
            out["forests"] += 1
            out["units"] += len(truth)
            out["dies"] += sum(len(x[2]) for x in truth)
            out["shapes"][shape] = out["shapes"].get(shape, 0) + 1
            bad = []
            compare(truth, eng, "%s (shape %s, seed %d/%d)" % (os.path.basename(path), shape, seed, i), bad)
            # walks that go up and come down again stay in the raw view: the children and attributes of `D parent` are those stored for it
            rw = d.run("raw entry ?(parent) (|D| [D offset, [D parent child offset], [D parent attribute [label value, form value]]])",
                       inp="d:" + common.hx(path), fuel=0, max=5000000, timeout=600)
            if rw["st"] != "done":
                bad.append(("raw-view-query-failed", dict(file=path, shape=shape, err="parent child: %s" % rw.get("msg"))))
            else:
                info = {off: (par, attrs) for root, ver, dies in truth for (off, tag, par, hc, attrs) in dies}
                kids = {}
                for root, ver, dies in truth:
                    for (off, tag, par, hc, attrs) in dies:
                        kids.setdefault(par, []).append(off)
                for st in rw["res"]:
                    e = seqvals(st[-1])
                    off = num(e[0])
                    par = info[off][0] if off in info else None
                    gk = [num(x) for x in seqvals(e[1])]
                    ga = [(num(seqvals(a)[0]), num(seqvals(a)[1])) for a in seqvals(e[2])]
                    if par is None or gk != kids.get(par, []) or ga != list(info[par][1]):
                        bad.append(("raw-walk-up-and-down-leaves-the-raw-view", dict(file=path, shape=shape, die=hex(off), parent=par, children=gk[:10], want_children=kids.get(par, [])[:10]))); break
            # parents asked for in ANOTHER order than the one the units are stored in (last unit first, then every second DIE backwards)
            rp = d.run("(|Dw| [Dw raw unit] relem entry [offset, (parent offset || -1)]), (|Dw| [Dw raw entry] relem ?(pos 2 mod == 0) [offset, (parent offset || -1)])",
                       inp="d:" + common.hx(path), fuel=0, max=5000000, timeout=600)
            if rp["st"] != "done":
                bad.append(("raw-view-query-failed", dict(file=path, shape=shape, err="parents in reverse unit order: %s" % rp.get("msg"))))
            else:
                tp = {off: par for root, ver, dies in truth for (off, tag, par, hc, attrs) in dies}
                for st in rp["res"]:
                    off, par = [num(x) for x in seqvals(st[-1])]
                    if tp.get(off) != par:
                        bad.append(("parent-differs-when-units-are-visited-out-of-order", dict(file=path, shape=shape, die=hex(off), want=tp.get(off), got=par))); break
            # the unit's own offset is where its header starts; a DIE's `unit` is that same unit
            ro = d.run("raw unit [offset, root unit offset, (root child unit offset || -1)]", inp="d:" + common.hx(path), fuel=0, max=100000, timeout=600)
            want = [u.offset for u in f.units if u.root is not None]
            if ro["st"] != "done":
                bad.append(("raw-view-query-failed", dict(file=path, shape=shape, err="unit offset: %s" % ro.get("msg"))))
            else:
                got = [[num(x) for x in seqvals(st[-1])] for st in ro["res"]]
                if [g[0] for g in got] != want:
                    bad.append(("unit-offset-differs", dict(file=path, shape=shape, want=want[:12], got=[g[0] for g in got][:12])))
                elif any(g[1] != g[0] or g[2] not in (-1, g[0]) for g in got):
                    bad.append(("unit-of-its-own-DIE-differs", dict(file=path, shape=shape, got=got[:12])))
            out["bad"] += bad[:4]
            if not bad:
                os.unlink(path)
            if len(out["samples"]) < 1:
                out["samples"].append(dict(shape=shape, units=len(truth), dies=sum(len(x[2]) for x in truth), versions=[v for _, v, _ in truth]))
        except common.DriverCrash as ex:
            out["bad"].append(("crash:" + getattr(ex, "key", ex.kind), dict(file=path, shape=shape, report=ex.report[-3000:])))
        except common.DriverTimeout:
            out["bad"].append(("hang", dict(file=path, shape=shape)))
    sh = out.pop("shapes")
    for k, v in sh.items():
        out["shape_" + k] = v
    return out


def job_file(payload):
    path, kind = payload
    d = common.get_driver()
    out = {"files": 0, "dies": 0, "units": 0, "dumper_unsure": 0, "bad": [], "samples": []}
    du, ok = dwdump.dump_info(path)
    if not ok:
        out["dumper_unsure"] += 1
        return out
    truth = [(u["dies"][0]["offset"] if u["dies"] else None, u["version"],
              [(x["offset"], x["tag"], x["parent"] if x["parent"] is not None else -1, x["has_children"], x["attrs"]) for x in u["dies"]]) for u in du]
    if not truth:
        return out
    alt = dwdump.altlink(path)
    if alt is not None:
        # the raw view also enumerates the units of the supplementary (dwz) file, after the main file's
        if alt.startswith("missing:"):
            out["dumper_unsure"] += 1
            return out
        du2, ok2 = dwdump.dump_info(alt)
        if not ok2:
            out["dumper_unsure"] += 1
            return out
        truth += [(u["dies"][0]["offset"] if u["dies"] else None, u["version"],
                   [(x["offset"], x["tag"], x["parent"] if x["parent"] is not None else -1, x["has_children"], x["attrs"]) for x in u["dies"]]) for u in du2]
    try:
        eng, err = engine_listing(d, path)
        if eng is None:
            out["bad"].append(("raw-view-query-failed", dict(file=path, err=err))); return out
        out["files"] += 1
        out["units"] += len(truth)
        out["dies"] += sum(len(x[2]) for x in truth)
        bad = []
        compare(truth, eng, os.path.basename(path) + " (" + kind + ")", bad, check_children=alt is None)
        out["bad"] += bad[:4]
        out["samples"].append(dict(file=os.path.basename(path), kind=kind, dies=sum(len(x[2]) for x in truth)))
    except common.DriverCrash as ex:
        out["bad"].append(("crash:" + getattr(ex, "key", ex.kind), dict(file=path, report=ex.report[-3000:])))
    except common.DriverTimeout:
        out["bad"].append(("hang", dict(file=path)))
    return out


def sample_files():
    t = os.path.join(common.REPO, "tests")
    return sorted(p for p in glob.glob(os.path.join(t, "*")) if os.path.isfile(p) and open(p, "rb").read(4) == b"\x7fELF")


def run(chk):
    quick = chk.tier == "quick"
    pool = common.Pool()
    tot, ctx, samples = {}, {}, []
    nf = 240 if quick else 6000
    zcheck.consume(chk, pool.map(job_forest, [(chk.seed * 2750159 + i, 10) for i in range(nf // 10)]), tot, ctx, samples, "C02 forests")
    jobs = [(f, "sample") for f in sample_files()]
    corpus = dwcorpus.build(quick)
    jobs += [(p, "compiled") for p, linked in corpus]
    t2, s2 = {}, []
    zcheck.consume(chk, pool.map(job_file, jobs), t2, ctx, s2, "C02 files")
    pool.finish()
    chk.cov.update({
        "evaluations": tot.get("dies", 0) + t2.get("dies", 0),
        "distinct_nontrivial": tot.get("forests", 0) + t2.get("files", 0),
        "rule": "one evaluation = one DIE whose offset/tag/parent/unit/child flag/attribute list/position were compared; distinct_nontrivial = files "
                "(generated forests + sample binaries + freshly compiled objects) whose whole raw view was compared",
        "generated_forests": tot.get("forests", 0), "generated_units": tot.get("units", 0), "generated_dies": tot.get("dies", 0),
        "forest_shapes": {k[6:]: v for k, v in tot.items() if k.startswith("shape_")},
        "generator_selfcheck_failures": tot.get("selfcheck_fail", 0),
        "sample_and_compiled_files": t2.get("files", 0), "their_dies": t2.get("dies", 0), "files_skipped_dumper_unsure": t2.get("dumper_unsure", 0),
        "compiled_objects": len(corpus),
        "samples": samples[:3] + s2[:3],
    })
    chk.assumptions += ["llvm-dwarfdump-14 -v decodes offsets, tags, parents, child flags and (attribute, form) lists correctly (generated files are "
                        "additionally known by construction, and generator and dumper are cross-checked before a file is used)"]
    if tot.get("selfcheck_fail", 0) > tot.get("forests", 0) // 10:
        chk.inconc("generator self-check failed on %d forests" % tot.get("selfcheck_fail", 0))
    if tot.get("forests", 0) < 100 or t2.get("files", 0) < 20:
        chk.inconc("too few files")


def replay(path):
    w = json.load(open(path))
    print(json.dumps(w, indent=1)[:4000])
    return 0
