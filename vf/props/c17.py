"""C17 -- location lists, their operations and abbreviations are consistent with the DIEs.

Monitors: O3 ground truth by construction -- expressions generated per operand class (none,
unsigned, signed, two operands, address, block, DIE reference, CU-relative type offset, nested
expression) at boundary values, stored as exprloc / block / .debug_loc (with base-address
entries) / .debug_loclists (offset_pair, base_address, start_end, start_length): the yielded
elements must be the address ranges in stored order, each operation must report its stored
offset, opcode and operands; O2 laws: length = #elem, relem = elem reversed and renumbered,
?OP_x <=> some operation has that opcode, address = the range.  Abbreviations: for every DIE
`abbrev` must yield the abbreviation with the DIE's code, tag, child flag and (name, form)
list (DW_FORM_indirect where the abbreviation says so); `abbrev entry` lists every
abbreviation of every table exactly once, shared tables once."""
import json, os, random
from vf import common, zcheck, dwgen, dwforest, dwloc, dwcorpus
from vf.dwgen import Die, Unit, Forest, DW_OP, DW_FORM, DW_AT, formcode, atcode

M64 = (1 << 64) - 1
PROBE_OPS = ["fbreg", "deref", "reg0", "reg5", "addr", "stack_value", "piece", "bregx", "nop", "const1u", "implicit_value", "regval_type", "GNU_regval_type", "entry_value", "call_frame_cfa", "plus_uconst"]


def gen_loc_forest(rng):
    units = []
    specs = []     # (die, unit, kind, payload)
    nunits = rng.randint(1, 5)
    shared = rng.random() < 0.5
    for ui in range(nunits):
        version = rng.choice([2, 3, 4, 4, 5, 5])
        base = rng.choice([0, 0x1000, 0x400000, 1 << 40])
        root = Die("compile_unit", [("name", "string", b"l%d.c" % ui), ("low_pc", "addr", base)])
        # shared tables also between NON-adjacent units (A, B, A)
        u = Unit(root, version, abbrev_table=(rng.choice(["shared", "shared", "shared2", None]) if shared else None))
        types = [Die("base_type", [("name", "string", b"t%d" % i), ("byte_size", "data1", rng.choice([1, 4, 8])), ("encoding", "data1", rng.choice([5, 7, 2]))]) for i in range(rng.randint(1, 3))]
        root.children += types
        holder = root
        for vi in range(rng.randint(2, 10)):
            if rng.random() < 0.25:
                blk = Die(rng.choice(["subprogram", "lexical_block"]), [("name", "string", b"f%d" % vi)])
                holder.children.append(blk)
                holder = blk if rng.random() < 0.7 else root
            d = Die(rng.choice(["variable", "formal_parameter"]), dwforest.rand_attrs(rng, version, name=b"v%d" % vi))
            d.attrs = [a for a in d.attrs if a[0] not in ("const_value", "low_pc", "high_pc", "stmt_list", "data_member_location")]
            at = rng.choice(["location", "location", "location", "frame_base", "data_member_location"]) if version >= 3 else "location"
            k = rng.random()
            if k < 0.5 and rng.random() < 0.4:
                # the other attributes of the location class (expression form only): decoded by attribute name when the form is a block
                at = rng.choice(LOC_CLASS)
            if k < 0.5 or at == "data_member_location":
                # (an expression may be empty: still one element, of length 0)
                ops, exp = dwloc.gen_expr(rng, version, types, n=(0 if rng.random() < 0.08 else None))
                form = "exprloc" if version >= 4 else rng.choice(["block1", "block1", "block2", "block4", "block"])
                d.attrs.append((at, form, ops))
                specs.append((d, u, "expr", (ops, exp, at)))
            else:
                n = rng.randint(1, 4)
                entries, exps = [], []
                pos = rng.randint(0, 16)
                for j in range(n):
                    ops, exp = dwloc.gen_expr(rng, version, types, n=rng.choice([0, 1, 1, 2, 2, 3, 4]))
                    if rng.random() < 0.25:
                        nb = rng.choice([0x2000, 0x700000, 1 << 33])
                        entries.append(("base", nb))
                        pos = rng.randint(0, 8)
                    ln = rng.randint(1, 64)
                    kind = "range" if version < 5 else rng.choice(["offset_pair", "offset_pair", "start_end", "start_length"])
                    if version >= 5 and rng.random() < 0.12 and not any(e[0] == "default" for e in entries):
                        kind = "default"       # anywhere in the list: what is stored after it is still part of the list
                    if kind == "default":
                        entries.append((kind, 0, 0, ops))
                    elif kind in ("range", "offset_pair"):
                        entries.append((kind, pos, pos + ln, ops))
                    elif kind == "start_end":
                        a = rng.getrandbits(36)
                        entries.append((kind, a, a + ln, ops))
                    else:
                        a = rng.getrandbits(36)
                        entries.append((kind, a, ln, ops))
                    exps.append((ops, exp))
                    pos += ln + rng.randint(0, 9)
                form = "sec_offset" if version >= 4 else "data4"
                d.attrs.append((at, form, 0))
                specs.append((d, u, "list", (entries, exps, base, at)))
            holder.children.append(d)
        units.append(u)
    f = Forest(units)
    if rng.random() < 0.5:
        f.abbrev_decl_seed = rng.getrandbits(30)
    f.abbrev_code_style = rng.choice([None, None, "high", "huge"])
    # DWARF 5: about half of the lists are picked through the offset table (DW_FORM_loclistx + DW_AT_loclists_base of the unit),
    # in an order other than the one they are stored in
    indexed = [sp for sp in specs if sp[2] == "list" and sp[1].version >= 5 and rng.random() < 0.5]
    slots = list(range(len(indexed)))
    rng.shuffle(slots)
    index_of = {}
    for sp, slot in zip(indexed, slots):
        d, u, at = sp[0], sp[1], sp[3][3]
        index_of[id(d)] = slot
        d.attrs = [(a, "loclistx", slot) if a == at else (a, fm, v) for a, fm, v in d.attrs]
        if u.root.at("loclists_base") is None:
            u.root.attrs.append(("loclists_base", "sec_offset", 12))
    w = dwgen.Writer(f)
    w.layout()
    sec = dwloc.LocSection(len(indexed))
    truth = {}
    for d, u, kind, payload in specs:
        if kind == "expr":
            ops, exp, at = payload
            truth[d.offset] = dict(unit=u, at=at, elems=[dict(low=0, high=M64, ops=ops, exp=exp)])
        else:
            entries, exps, base, at = payload
            if u.version >= 5:
                off, ranges = sec.add_loclists(w, u, base, entries, index_of.get(id(d)))
            else:
                off, ranges = sec.add_loc(w, u, base, entries)
            for i, (a, fm, v) in enumerate(d.attrs):
                if a == at and fm != "loclistx":
                    d.attrs[i] = (a, fm, off)
            truth[d.offset] = dict(unit=u, at=at, elems=[dict(low=lo, high=hi, ops=o, exp=e) for (lo, hi), (o, e) in zip(ranges, exps)])
    f.debug_loc, f.debug_loclists = sec.finish()
    return f, w, truth


def operand_ok(desc, val, unit):
    k = desc[0]
    if k in ("u", "s", "x"):
        return val["t"] == "c" and int(val["v"]) == desc[1] and (k != "x" or val["d"] == "hex")
    if k == "cuoff":
        return val["t"] == "c" and int(val["v"]) == desc[1].offset - unit.offset
    if k == "die":
        return val["t"] == "die" and val["o"] == desc[1].offset
    if k == "block":
        return val["t"] == "q" and [int(x["v"]) for x in val["v"]] == list(desc[1])
    if k == "expr":
        return val["t"] == "lle" and [o[0] for o in val["ops"]] == [e[0] for e in desc[1]]
    return False


LOC_CLASS = ["data_location", "return_addr", "static_link", "use_location", "vtable_elem_location", "string_length"]


def check_locations(d, f, w, truth, path, tag, out, bad):
    inp = "d:" + common.hx(path)
    by_at = {}
    for off, t in truth.items():
        by_at.setdefault(t["at"], []).append(off)
    for at, offs in by_at.items():
        q = ("entry ?AT_%s (|D| D [D @AT_%s (|L| [L address, L length, [L elem [offset, label value, [value], pos]], [L relem [offset, label value, pos]], L, L pos])])" % (at, at))
        r = d.run(q, inp=inp, fuel=0, max=1000000, timeout=600)
        if r["st"] != "done":
            bad.append(("location-query-failed", dict(file=tag, at=at, st=r["st"], msg=r.get("msg")))); return
        got = {s[-2]["o"]: s[-1]["v"] for s in r["res"]}
        for off in offs:
            t = truth[off]
            if off not in got:
                bad.append(("location-attribute-not-found", dict(file=tag, die=hex(off), at=at))); return
            elems = got[off]
            out["loc_attrs"] += 1
            if len(elems) != len(t["elems"]):
                bad.append(("location-element-count-differs", dict(file=tag, die=hex(off), want=len(t["elems"]), got=len(elems)))); return
            for k, (e, te) in enumerate(zip(elems, t["elems"])):
                if len(e["v"]) != 6 or e["v"][4]["t"] != "lle":
                    what = [x["t"] for x in e["v"]]
                    bad.append(("location-attribute-not-decoded-as-location:%s:%s" % (at, "exprloc" if t["unit"].version >= 4 else "block"),
                                dict(file=tag, die=hex(off), at=at, yielded_types=what, shows=[x.get("sh", "")[:60] for x in e["v"]][-2:]))); return
                addr, length, el, rel, lle, lpos = e["v"]
                out["elements"] += 1
                if int(lpos["v"]) != k:
                    bad.append(("location-element-position", dict(file=tag, die=hex(off), index=k, pos=lpos["v"]))); return
                want_r = [[str(te["low"]), str(te["high"] - te["low"])]]
                if addr["t"] != "as" or addr["r"] != want_r:
                    bad.append(("location-range-differs", dict(file=tag, die=hex(off), index=k, want=(hex(te["low"]), hex(te["high"])), got=addr.get("r")))); return
                offs_exp = dwloc.op_offsets(w, t["unit"], te["ops"])
                if int(length["v"]) != len(te["exp"]) or len(el["v"]) != len(te["exp"]):
                    bad.append(("location-length-differs-from-operation-count", dict(file=tag, die=hex(off), index=k, length=length["v"], elem=len(el["v"]), want=len(te["exp"])))); return
                for j, (op, (code, operands)) in enumerate(zip(el["v"], te["exp"])):
                    o_off, o_code, o_vals, o_pos = op["v"]
                    out["operations"] += 1
                    if int(o_pos["v"]) != j or int(o_off["v"]) != offs_exp[j] or int(o_code["v"]) != code:
                        bad.append(("operation-offset-or-opcode-differs:%#x" % code, dict(file=tag, die=hex(off), elem=k, op=j, want=(offs_exp[j], code), got=(o_off["v"], o_code["v"]), pos=o_pos["v"]))); return
                    vals = o_vals["v"]
                    if len(vals) != len(operands) or not all(operand_ok(dsc, v, t["unit"]) for dsc, v in zip(operands, vals)):
                        bad.append(("operation-operands-differ:%#x" % code, dict(file=tag, die=hex(off), elem=k, op=j, want=[(x[0], str(x[1])[:40]) for x in operands],
                                                                               got=[v.get("sh") for v in vals]))); return
                rv = [(int(x["v"][0]["v"]), int(x["v"][1]["v"])) for x in rel["v"]]
                fw = [(int(x["v"][0]["v"]), int(x["v"][1]["v"])) for x in el["v"]]
                if rv != fw[::-1]:
                    bad.append(("relem-is-not-elem-reversed", dict(file=tag, die=hex(off), elem=k))); return
    # ?OP_x <=> some operation has that opcode
    probes = " ".join("[L ?OP_%s]" % o for o in PROBE_OPS)
    r = d.run("entry (|D| D (%s) ?(type == T_LOCLIST_ELEM) (|L| L %s))" % (", ".join("@AT_" + a for a in ["location", "frame_base", "data_member_location"] + LOC_CLASS), probes),
              inp=inp, fuel=0, max=1000000, timeout=600)
    if r["st"] == "done":
        for s in r["res"]:
            lle = s[-1 - len(PROBE_OPS)]
            atoms = set(o[0] for o in lle["ops"])
            for i, name in enumerate(PROBE_OPS):
                out["op_probes"] += 1
                holds = len(s[-len(PROBE_OPS) + i]["v"]) == 1
                if holds != (DW_OP[name] in atoms):
                    bad.append(("?OP_x-disagrees-with-operations:%s" % name, dict(file=tag, holds=holds, atoms=sorted(atoms)))); return
    else:
        bad.append(("op-probe-query-failed", dict(file=tag, st=r["st"], msg=r.get("msg"))))


def check_abbrevs(d, f, w, path, tag, out, bad):
    inp = "d:" + common.hx(path)
    r = d.run("raw entry (|D| D [D abbrev (|A| [A code, A label value, (A ?haschildren 1 || 0), [A attribute [label value, form value]]])])", inp=inp, fuel=0, max=1000000, timeout=600)
    if r["st"] != "done":
        bad.append(("abbrev-query-failed", dict(file=tag, st=r["st"], msg=r.get("msg")))); return
    dies = {x.offset: x for x in f.all_dies()}
    for s in r["res"]:
        off = s[-2]["o"]
        x = dies.get(off)
        if x is None:
            continue
        out["die_abbrevs"] += 1
        if len(s[-1]["v"]) != 1:
            bad.append(("abbrev-arity", dict(file=tag, die=hex(off), n=len(s[-1]["v"])))); return
        code, tg, hc, attrs = s[-1]["v"][0]["v"]
        want_attrs = [(atcode(a), formcode("indirect" if (fm == "indirect") else fm)) for a, fm, v in x.attrs]
        got_attrs = [(int(a["v"][0]["v"]), int(a["v"][1]["v"])) for a in attrs["v"]]
        if int(code["v"]) != x._abbrev or int(tg["v"]) != x.tag or bool(int(hc["v"])) != x.flag() or got_attrs != want_attrs:
            bad.append(("abbrev-does-not-match-DIE", dict(file=tag, die=hex(off), want=(x._abbrev, x.tag, x.flag(), want_attrs), got=(code["v"], tg["v"], hc["v"], got_attrs)))); return
    # abbrev entry: every abbreviation of every table exactly once, shared tables once
    r2 = d.run("abbrev (|U| [U offset, U entry code])", inp=inp, fuel=0, max=100000, timeout=600)
    if r2["st"] != "done":
        bad.append(("abbrev-unit-query-failed", dict(file=tag, st=r2["st"], msg=r2.get("msg")))); return
    got = {}
    for s in r2["res"]:
        vals = [int(v["v"]) for v in s[-1]["v"]]
        if vals[0] in got:
            bad.append(("abbreviation-table-listed-twice", dict(file=tag, offset=vals[0]))); return
        got[vals[0]] = vals[1:]
    want = {}
    for tid, tab in w.tables.items():
        want[w.table_offsets[tid]] = list(tab.values())
    out["abbrev_tables"] += len(want)
    if {k: sorted(v) for k, v in got.items()} != {k: sorted(v) for k, v in want.items()}:
        bad.append(("abbrev-entry-listing-differs", dict(file=tag, want={k: sorted(v) for k, v in want.items()}, got={k: sorted(v) for k, v in got.items()}))); return
    for k, v in got.items():
        if len(set(v)) != len(v):
            bad.append(("abbreviation-listed-twice", dict(file=tag, table=k)))
    # the abbreviation table of a UNIT (`unit abbrev`) is the one its header names, with the same entries
    r3 = d.run("raw unit (|U| [U offset, U abbrev offset, U abbrev entry code])", inp=inp, fuel=0, max=100000, timeout=600)
    if r3["st"] != "done":
        bad.append(("abbrev-unit-query-failed", dict(file=tag, st=r3["st"], msg=r3.get("msg"), which="unit abbrev"))); return
    by_unit = {u.offset: u for u in f.units}
    for s in r3["res"]:
        vals = [int(v["v"]) for v in s[-1]["v"]]
        u = by_unit.get(vals[0])
        out["unit_abbrevs"] = out.get("unit_abbrevs", 0) + 1
        if u is None or vals[1] != u.abbrev_offset or sorted(vals[2:]) != sorted(want.get(u.abbrev_offset, [])):
            bad.append(("unit-abbrev-differs", dict(file=tag, unit=vals[0], got_table=vals[1], want_table=getattr(u, "abbrev_offset", None)))); return


def check_laws_file(d, path, tag, out, bad):
    """O2 laws on real files (no model): length/#elem, relem reverse, abbrev matches raw DIE."""
    inp = "d:" + common.hx(path)
    r = d.run("entry attribute ?(value type == T_LOCLIST_ELEM) value (|L| [L length, [L elem [offset, label value, pos]], [L relem [offset, label value, pos]]])", inp=inp, fuel=0, max=1000000, timeout=600)
    if r["st"] == "error" and "No DWARF" in r.get("msg", ""):
        return
    if r["st"] == "done":
        for s in r["res"]:
            ln, el, rel = s[-1]["v"]
            out["elements"] += 1
            fw = [(x["v"][0]["v"], x["v"][1]["v"]) for x in el["v"]]
            rv = [(x["v"][0]["v"], x["v"][1]["v"]) for x in rel["v"]]
            if int(ln["v"]) != len(fw) or rv != fw[::-1] or [int(x["v"][2]["v"]) for x in el["v"]] != list(range(len(fw))):
                bad.append(("location-laws", dict(file=tag, length=ln["v"], elem=len(fw)))); break
    r = d.run("raw entry (|D| D [D label value, (D ?haschildren 1 || 0), [D attribute label value]] [D abbrev (|A| [A label value, (A ?haschildren 1 || 0), [A attribute label value]])])", inp=inp, fuel=0, max=1000000, timeout=600)
    if r["st"] == "done":
        for s in r["res"]:
            out["die_abbrevs"] += 1
            a = json.dumps([strip(x) for x in s[-2]["v"]])
            b = json.dumps([strip(x) for x in s[-1]["v"][0]["v"]]) if len(s[-1]["v"]) == 1 else None
            if a != b:
                bad.append(("abbrev-does-not-match-DIE", dict(file=tag, die=hex(s[-3]["o"])))); break


def strip(v):
    if isinstance(v, dict):
        return {k: strip(x) for k, x in v.items() if k not in ("p", "sh", "s")}     # "s" is the internal signedness of the representation
    if isinstance(v, list):
        return [strip(x) for x in v]
    return v


def job(payload):
    kind, arg = payload
    d = common.get_driver()
    out = {"files": 0, "loc_attrs": 0, "elements": 0, "operations": 0, "op_probes": 0, "die_abbrevs": 0, "abbrev_tables": 0, "bad": [], "samples": []}
    try:
        if kind == "gen":
            seed, count = arg
            rng = random.Random(seed)
            os.makedirs(os.path.join(common.RUN, "forests"), exist_ok=True)
            for i in range(count):
                f, w, truth = gen_loc_forest(rng)
                p = os.path.join(common.RUN, "forests", "c17-%d-%d.o" % (seed, i))
                open(p, "wb").write(w.elf())
                tag = "%s (seed %d/%d)" % (os.path.basename(p), seed, i)
                bad = []
                check_locations(d, f, w, truth, p, tag, out, bad)
                check_abbrevs(d, f, w, p, tag, out, bad)
                out["files"] += 1
                out["bad"] += bad[:4]
                if not bad:
                    os.unlink(p)
                if len(out["samples"]) < 1:
                    out["samples"].append(dict(file=tag, location_attributes=len(truth), versions=[u.version for u in f.units]))
        else:
            bad = []
            check_laws_file(d, arg, os.path.basename(arg), out, bad)
            out["files"] += 1
            out["bad"] += bad[:4]
    except common.DriverCrash as ex:
        out["bad"].append(("crash:" + getattr(ex, "key", ex.kind), dict(what=str(arg)[:100], report=ex.report[-3000:])))
    except common.DriverTimeout:
        out["bad"].append(("hang", dict(what=str(arg)[:100])))
    out["bad"] = out["bad"][:30]
    return out


def run(chk):
    quick = chk.tier == "quick"
    pool = common.Pool()
    tot, ctx, samples = {}, {}, []
    from vf.props import c02
    nf = 160 if quick else 3200
    jobs = [("gen", (chk.seed * 122949829 + i, 5)) for i in range(nf // 5)]
    corpus = dwcorpus.build(quick)
    sel = [p for p, l in corpus][::(4 if quick else 1)]
    jobs += [("file", f) for f in c02.sample_files() + sel]
    zcheck.consume(chk, pool.map(job, jobs), tot, ctx, samples, "C17")
    pool.finish()
    chk.cov.update({
        "evaluations": tot.get("operations", 0) + tot.get("die_abbrevs", 0) + tot.get("op_probes", 0),
        "distinct_nontrivial": tot.get("loc_attrs", 0) + tot.get("abbrev_tables", 0),
        "rule": "one evaluation = one location operation (offset, opcode, operands), one DIE's abbreviation, or one ?OP_x probe; "
                "distinct_nontrivial = generated location attributes + abbreviation tables compared with the model",
        "generated_files": nf, "location_attributes": tot.get("loc_attrs", 0), "location_elements": tot.get("elements", 0),
        "operations_compared": tot.get("operations", 0), "OP_probes": tot.get("op_probes", 0),
        "dies_whose_abbreviation_was_checked": tot.get("die_abbrevs", 0), "abbreviation_tables": tot.get("abbrev_tables", 0),
        "sample_and_compiled_files_for_the_laws": len(c02.sample_files()) + len(sel),
        "samples": samples[:4],
    })
    chk.assumptions += ["implicit_pointer byte offsets are generated non-negative (libdw reads them as unsigned LEB128)",
                        "DW_OP_skip/DW_OP_bra are not generated (libdw validates branch targets)"]
    if tot.get("operations", 0) < 2000 or tot.get("die_abbrevs", 0) < 2000:
        chk.inconc("too few events")


def replay(path):
    w = json.load(open(path))
    print(json.dumps(w, indent=1)[:4000])
    return 0
