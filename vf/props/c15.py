"""C15 -- notation does not change meaning.

Monitor: O2, both sides are runs of the real engine.  Every generated program is
rewritten by each applicable documented equivalence (layout, comments, redundant
parentheses, string splitting, escape spellings, raw strings, %s/%d/%x/%o/%b vs %( %),
E? vs (E,), if-then-else vs (?(C) A, !(C) B), ?(E) vs ([E] != []), infix vs the let form)
at a random applicable position, and compiled with and without tree::simplify; results
must be identical (sequences where the rewrite cannot change evaluation order,
multisets otherwise) and the compile verdict must be the same."""
import json, os, random
from vf import common, zast, zgen, zmodel as M, zcmp, zcheck

DIRS = {"s": ("cat", []), "d": ("word", "value"), "x": ("cat", [("word", "value"), ("word", "hex")]),
        "o": ("cat", [("word", "value"), ("word", "oct")]), "b": ("cat", [("word", "value"), ("word", "bin")])}
INFIX_WORD = {"==": "?eq", "!=": "?ne", "<": "?lt", "<=": "?le", ">": "?gt", ">=": "?ge"}


def rw_paren(n, rng):
    ps = zast.paths(n, lambda x: x[0] not in ("int",) or True)
    if not ps:
        return None
    p = rng.choice(ps)
    return zast.replace_at(n, p, lambda x: ("paren", (), x))


def rw_nop(n, rng):
    """Insert one to three empty parenthesised expressions `()` into a concatenation (the empty expression yields its input)."""
    ps = zast.paths(n, lambda x: x[0] == "cat")
    if not ps:
        return ("cat", [("paren", (), ("cat", []))] * rng.randint(1, 3) + [n])
    p = rng.choice(ps)

    def f(x):
        ch = list(x[1])
        for _ in range(rng.randint(1, 3)):
            ch.insert(rng.randint(0, len(ch)), ("paren", (), ("cat", [])))
        return ("cat", ch)
    return zast.replace_at(n, p, f)


def order_is_kept(n, path):
    """Is the node at PATH outside every construct that materialises the ORDER of what it yields (a capture, a format-string
    splice)?  The two rewrites below replace a construct by an ALT; when several stacks reach an ALT the order in which its
    results come out is not specified, so inside such constructs the rewritten program may legitimately differ."""
    cur = n
    for i in path:
        if cur[0] in ("cap", "bcap", "str"):
            return False
        cur = zast.children(cur)[i][0]
    return True


def rw_qmark(n, rng):
    ps = [p for p in zast.paths(n, lambda x: x[0] == "close" and x[1] == "?") if order_is_kept(n, p)]
    if not ps:
        return None
    return zast.replace_at(n, rng.choice(ps), lambda x: ("paren", (), ("alt", [x[2], ("cat", [])])))


def rw_if(n, rng):
    ps = [p for p in zast.paths(n, lambda x: x[0] == "if") if order_is_kept(n, p)]
    if not ps:
        return None
    return zast.replace_at(n, rng.choice(ps), lambda x: ("paren", (), ("alt", [
        ("cat", [("sub", True, (), x[1]), ("paren", (), x[2])]), ("cat", [("sub", False, (), x[1]), ("paren", (), x[3])])])))


def rw_sub(n, rng):
    ps = zast.paths(n, lambda x: x[0] == "sub" and not x[2])
    if not ps:
        return None
    return zast.replace_at(n, rng.choice(ps), lambda x: ("paren", (), ("infix", ("cap", (), x[3]), "!=" if x[1] else "==", ("elist",))))


CNT = [0]


def rw_infix(n, rng):
    ps = zast.paths(n, lambda x: x[0] == "infix" and x[2] in INFIX_WORD)
    if not ps:
        return None

    def f(x):
        CNT[0] += 1
        a, b = ".tmpa%d" % CNT[0], ".tmpb%d" % CNT[0]
        return ("sub", True, (), ("cat", [("let", (a,), x[1]), ("let", (b,), x[3]), ("read", a), ("read", b), ("word", INFIX_WORD[x[2]])]))
    return zast.replace_at(n, rng.choice(ps), f)


def rw_dir(n, rng):
    ps = zast.paths(n, lambda x: x[0] == "str" and any((not isinstance(p, (bytes, bytearray))) and p[0] == "dir" for p in x[1]))
    if not ps:
        return None

    def f(x):
        parts = list(x[1])
        idx = [i for i, p in enumerate(parts) if (not isinstance(p, (bytes, bytearray))) and p[0] == "dir"]
        i = rng.choice(idx)
        parts[i] = ("splice", DIRS[parts[i][1]])
        return ("str", parts)
    return zast.replace_at(n, rng.choice(ps), f)


def raw_variant(txt_node, rng):
    """A string literal written raw: only for byte strings a raw literal can spell."""
    return None


REWRITES = [("parentheses", rw_paren, True), ("empty parentheses", rw_nop, True), ("E? vs (E,)", rw_qmark, False), ("if vs (?(C) A, !(C) B)", rw_if, False),
            ("?(E) vs ([E] != [])", rw_sub, False), ("infix vs let form", rw_infix, False), ("%x vs %( %)", rw_dir, True)]


def job(payload):
    seed, count = payload
    d = common.get_driver()
    rng = random.Random(seed)
    out = {"n": 0, "variants": 0, "nontrivial": 0, "bad": [], "samples": [], "ctx": {}}
    kinds = {}

    def run(t, **kw):
        return d.run(t, fuel=zcheck.FUEL, max=zcheck.MAXRES, **kw)

    for i in range(count):
        g = zgen.Gen(rng, maxdepth=rng.randint(1, 4), err_rate=0.03)
        prog = g.program([])
        # the generator rarely emits the bare directives; add some on purpose
        if rng.random() < 0.25:
            prog = ("cat", [prog, g.lit_int(), ("str", [rng.choice([b"", b"v="]), ("dir", rng.choice("sdxob")), b"|"])])
        if rng.random() < 0.15:
            # an infix operator whose LEFT operand rebinds a name that the RIGHT operand reads: each operand has its own scope
            # (the documented expansion evaluates them in two separate let bodies), so the right one sees the outer binding
            a, b = rng.sample([1, 2, 5, 7], 2)
            nm = rng.choice(["Qs", "X", "A"])
            frag = ("infix", ("cat", [("let", (nm,), ("int", b, "dec")), ("read", nm)]), rng.choice(["==", "!=", "<", ">", "<=", ">="]), ("read", nm))
            if rng.random() < 0.5:
                frag = ("infix", ("read", nm), rng.choice(["==", "!=", "<", ">"]), ("cat", [("let", (nm,), ("int", b, "dec")), ("read", nm)]))
            prog = ("cat", [("let", (nm,), ("int", a, "dec")), frag, ("read", nm), prog])
        if rng.random() < 0.12:
            # equal stacks in a row, and stacks equal but for a bound name that a condition reads (see C01's twins)
            from vf.props import c01
            tprog, tstacks = c01.twin_case(rng, {"maxdepth": 3})
            prog = ("cat", [("alt", [("cat", list(st)) for st in tstacks]), tprog])
        elif rng.random() < 0.1:
            # ?( ) / !( ) around a body of assertions only, some of which do not apply to the value at hand
            from vf.props import c04
            vals = rng.sample([("int", 1, "dec"), ("int", 2, "dec"), ("str", [b"x"]), ("str", [b"a("]), ("elist",), ("cap", (), ("int", 1, "dec"))], 3)
            prog = ("cat", [("alt", vals), ("sub", rng.random() < 0.6, (), c04.assertion_body(rng, rng.randint(1, 2)))])
        t0 = zast.text(prog)
        out["n"] += 1
        try:
            r0 = run(t0)
            if zcheck.skipped(r0):
                continue
            if r0["st"] == "done" and len(r0["res"]) > 0:
                out["nontrivial"] += 1
            variants = []
            # layout / spelling
            for name, kw in (("whitespace", dict(ws=True)), ("comments", dict(ws=True, comments=True)),
                             ("escapes", dict(strenc=True)), ("string splitting", dict(split=True)),
                             ("no blanks where tokens cannot merge", dict(tight=True)),
                             ("all layout", dict(ws=True, comments=True, strenc=True, split=True))):
                st = zast.Style(rng, **kw)
                t = zast.text(prog, st)
                if t != t0:
                    variants.append((name, t, True, {}))
            for name, f, ordered in REWRITES:
                p2 = f(prog, rng)
                if p2 is not None:
                    variants.append((name, zast.text(p2), ordered, {}))
            variants.append(("simplify off", t0, True, {"nosimp": 1}))
            for name, t, ordered, kw in variants:
                r = run(t, **kw)
                out["variants"] += 1
                kinds[name] = kinds.get(name, 0) + 1
                if r.get("stray") or r0.get("stray"):
                    out["bad"].append(("stray-stdout:" + name, dict(a=t0, b=t, stray=(r0.get("stray"), r.get("stray")))))
                w = zcheck.same_outcome(r0, r, ordered=ordered and ordered_ok(prog))
                if w is None:
                    continue
                if w and name in ("?(E) vs ([E] != [])",) and r["st"] == "error" and r0["st"] != "error":
                    continue      # E left nothing to capture: the equivalence is only claimed when it does
                if w and name in ("if vs (?(C) A, !(C) B)", "?(E) vs ([E] != [])") and w == "diagnostics differ":
                    # ?(E) / the condition stop at the first result, the rewritten form evaluates further
                    # (or twice): only the results are claimed equal
                    continue
                if w:
                    out["bad"].append(("%s:%s" % (name, w), dict(a=t0, b=t, opts=kw)))
            if len(out["samples"]) < 2 and variants:
                out["samples"].append(dict(original=t0, variant=variants[-2][1], kind=variants[-2][0]))
        except common.DriverCrash as ex:
            out["bad"].append(("crash:" + getattr(ex, "key", ex.kind), dict(a=t0, request=ex.request[:800], report=ex.report[-3000:])))
        except common.DriverTimeout as ex:
            out["bad"].append(("hang", dict(a=t0, request=ex.request[:800])))
    for k, v in kinds.items():
        out["kind_" + k] = v
    out["bad"] = out["bad"][:40]
    return out


def ordered_ok(prog):
    return True


RAW_CASES = [(b"a\\nb", 'r"a\\nb"'), (b"\\x41", 'r"\\x41"'), (b"\\101", 'r"\\101"'), (b'foo \\"bar\\\\\\"', 'r"foo \\"bar\\\\\\""'),
             (b"\\t\\\\", 'r"\\t\\\\"'), (b"plain", 'r"plain"'), (b"a\\nb\n", 'r"a\\nb"\\ "\\n"'), (b"\n\\n", '"\\n"\\ r"\\n"')]


def split_cases(rng, n):
    """Literals split into 2-4 segments, each cooked or raw, with every kind of gap between them (none, blank, tab, newline, several)."""
    raw_tokens = [("a", b"a"), ("b", b"b"), (" ", b" "), ("\\n", b"\\n"), ("\\x41", b"\\x41"), ('\\"', b'\\"'), ("\\t", b"\\t"), ("(", b"("), ("]", b"]"), ("\\101", b"\\101"), ("\\\\", b"\\\\")]
    cooked_tokens = [("a", b"a"), ("c", b"c"), (" ", b" "), ("\\n", b"\n"), ("\\x41", b"A"), ('\\"', b'"'), ("\\t", b"\t"), (")", b")"), ("[", b"["), ("\\101", b"A"), ("\\\\", b"\\"), ("%%", b"%")]
    out = []
    for _ in range(n):
        segs, want = [], b""
        for k in range(rng.randint(2, 4)):
            israw = rng.random() < 0.5
            toks = [rng.choice(raw_tokens if israw else cooked_tokens) for _ in range(rng.randint(0, 4))]
            segs.append(("r" if israw else "") + '"' + "".join(t for t, _ in toks) + '"')
            want += b"".join(b for _, b in toks)
        text = segs[0]
        for sg in segs[1:]:
            text += "\\" + rng.choice(["", " ", "\t", "\n", " \n ", "\n\n", "  "]) + sg
        out.append((want, text))
    return out


SPLICE_LETS = ['("%( let x := 1; x %)", "%( let x := 2; x %)")', '7 let x := 1; (|y| ("%( let x := 2; x %)", "b") drop x)', '"%( let a := 5; a %)-%( 3 %)"',
               '(1, 2) (|v| "%( let w := v; w w add %)")', '[("%( let q := 1; q %)", 2)]', '1 ?("%( let k := 2; k %)" == "2")', 'let z := 9; ("%( let x := z; x %)" z)',
               '(|| "%( let x := 1; x %)") "%( let x := 2; x %)"', 'if ("%( let c := 1; c %)" == "1") then "%( let c := 2; c %)" else 0', '{"%( let b := 4; b %)"} apply']


def job_splice_lets(seed):
    """`let` inside a %( %) splice: where such a name is visible is not documented, so no verdict on WHAT these programs yield -- but
    whatever it is, it is the same with and without the simplification pass (and in every layout)."""
    d = common.get_driver()
    rng = random.Random(seed)
    out = {"splice_let_runs": 0, "bad": []}
    for t in SPLICE_LETS:
        try:
            a = d.run(t, fuel=zcheck.FUEL, max=zcheck.MAXRES)
            b = d.run(t, fuel=zcheck.FUEL, max=zcheck.MAXRES, nosimp=1)
            out["splice_let_runs"] += 1
            w = zcheck.same_outcome(a, b, ordered=True)
            if w or (a["st"] == "reject") != (b["st"] == "reject"):
                out["bad"].append(("simplify off:let-in-a-splice:%s" % (w or "compile verdict differs"), dict(a=t, with_simplify=dict(st=a["st"], msg=a.get("msg"), n=len(a.get("res", []))),
                                                                                                         without=dict(st=b["st"], msg=b.get("msg"), n=len(b.get("res", []))))))
        except common.DriverCrash as ex:
            out["bad"].append(("crash:" + getattr(ex, "key", ex.kind), dict(a=t, report=ex.report[-3000:])))
        except common.DriverTimeout as ex:
            out["bad"].append(("hang", dict(a=t)))
    return out


def job_raw(seed):
    """Raw strings: r"..." leaves escape sequences intact (compared with the spelled-out normal literal)."""
    d = common.get_driver()
    out = {"raw": 0, "bad": []}
    for want, rawtext in RAW_CASES + split_cases(random.Random(seed), 400):
        normal = zast.text(("str", [want]))
        r1, r2 = d.run(normal), d.run(rawtext)
        out["raw"] += 1
        w = zcheck.same_outcome(r1, r2, ordered=True)
        if w:
            out["bad"].append(("raw string:" + w, dict(a=normal, b=rawtext)))
        elif r1["st"] != "done" or bytes.fromhex(r1["res"][0][0]["v"]) != want:
            out["bad"].append(("raw string: literal does not denote its bytes", dict(a=normal, want=repr(want))))
    return out


def job_dir_dwarf(path):
    """The directives and their documented expansions on values that are not constants: attributes (whose `value` is a number, a
    string, a DIE, ...), DIEs, units.  %d = %( value %), %x = %( value hex %), %o = %( value oct %), %b = %( value bin %), %s = %( %)."""
    d = common.get_driver()
    out = {"dir_dwarf": 0, "bad": []}
    inp = "d:" + common.hx(path)
    exp = {"s": "%( %)", "d": "%( value %)", "x": "%( value hex %)", "o": "%( value oct %)", "b": "%( value bin %)"}
    producers = ["entry attribute", "entry ?AT_byte_size attribute ?AT_byte_size", "entry ?AT_decl_line attribute ?AT_decl_line", "entry ?AT_name attribute ?AT_name",
                 "entry ?AT_type attribute ?AT_type", "entry ?AT_encoding attribute ?AT_encoding", "entry ?AT_const_value attribute ?AT_const_value",
                 "entry ?AT_upper_bound attribute ?AT_upper_bound", "entry", "unit", "entry offset", "entry label", "entry ?AT_byte_size @AT_byte_size"]
    for prod in producers:
        for dch, ex in exp.items():
            a = '%s "<%%%s>"' % (prod, dch)
            b = '%s "<%s>"' % (prod, ex)
            try:
                ra, rb = d.run(a, inp=inp, fuel=0, max=100000, timeout=120), d.run(b, inp=inp, fuel=0, max=100000, timeout=120)
                out["dir_dwarf"] += 1
                w = zcheck.same_outcome(ra, rb, ordered=True)
                if w is None:
                    continue
                if w or ra["stderr"] != rb["stderr"]:
                    out["bad"].append(("%%%s vs its expansion on DWARF values:%s" % (dch, w or "diagnostics differ"), dict(file=os.path.basename(path), a=a, b=b,
                                                                                                                      na=len(ra["res"]), nb=len(rb["res"]), ea=ra["stderr"][:120], eb=rb["stderr"][:120])))
            except common.DriverCrash as ex2:
                out["bad"].append(("crash:" + getattr(ex2, "key", ex2.kind), dict(a=a, report=ex2.report[-2500:])))
    return out


def run(chk):
    quick = chk.tier == "quick"
    pool = common.Pool()
    tot, ctx, samples = {}, {}, []
    n = 6000 if quick else 150000
    per = 100
    zcheck.consume(chk, pool.map(job, [(chk.seed * 1299709 + i, per) for i in range(n // per)]), tot, ctx, samples, "C15")
    tdir = os.path.join(common.REPO, "tests")
    dfiles = [os.path.join(tdir, f) for f in (["typedef.o", "enum.o", "nontrivial-types.o"] if quick else ["typedef.o", "enum.o", "nontrivial-types.o", "bitcount.o", "char_16_32.o", "dwz-partial", "a1.out"])
              if os.path.exists(os.path.join(tdir, f))]
    zcheck.consume(chk, pool.map(job_dir_dwarf, dfiles), tot, ctx, samples, "C15 directives on DWARF values")
    zcheck.consume(chk, pool.map(job_splice_lets, [chk.seed * 43]), tot, ctx, samples, "C15 lets in splices")
    zcheck.consume(chk, pool.map(job_raw, [chk.seed * 41 + i for i in range(4 if quick else 64)]), tot, ctx, samples, "C15 raw")
    pool.finish()
    chk.cov.update({
        "evaluations": tot.get("variants", 0) + tot.get("raw", 0),
        "distinct_nontrivial": tot.get("nontrivial", 0),
        "rule": "one evaluation = one (program, rewritten variant) pair compared; programs are seeded random typed ASTs; non-trivial = original program yields at least one result",
        "programs": tot.get("n", 0),
        "variants_by_rewrite": {k[5:]: v for k, v in sorted(tot.items()) if k.startswith("kind_")},
        "raw_string_cases": tot.get("raw", 0), "directive_vs_expansion_on_DWARF_values": tot.get("dir_dwarf", 0),
        "samples": samples[:5],
    })
    chk.assumptions += ["comments are inserted whitespace-delimited, as the statement says; comment bodies contain no '*', '/', quotes or brackets",
                        "?(E) vs ([E] != []) is judged only when E leaves a value to capture"]
    if tot.get("variants", 0) < 5000:
        chk.inconc("too few variants")


def replay(path):
    w = json.load(open(path))
    print(json.dumps(w, indent=1)[:3000])
    d = common.Driver()
    wi = w["witness"]
    for k in ("a", "b"):
        if k in wi:
            r = d.run(wi[k], **(wi.get("opts") or {} if k == "b" else {}))
            print(k, r["st"], r.get("msg"), [zcmp.show_stack(s) for s in zcheck.eng_results(r)][:10] if r["st"] in ("done", "error") else "")
    return 0
