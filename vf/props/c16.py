"""C16 -- address sets behave as mathematical sets.

Monitors: (i) covdrv: bitmask model vs the repository's coverage.cc, all
(state, operation) transitions and all state pairs over a small universe at
four bases (exhaustive) + long random sequences; canonical-form hook H4 aborts
on any non-canonical intermediate.  (ii) zwdrv: random aset expressions vs a
Python set model through the words of the language, incl. rendering and ==."""
import json, os, random, re, subprocess
from vf import common

BASES = [0, (1 << 32) - 6, (1 << 63) - 6, (1 << 64) - 14]


def job_covdrv(args):
    exe = os.path.join(common.VERIF, "build", common.VARIANT, "drv", "covdrv")
    env = dict(os.environ); env.update(common.ASAN_ENV)
    p = subprocess.run([exe] + [str(a) for a in args], stdout=subprocess.PIPE, stderr=subprocess.PIPE, env=env, timeout=3000)
    if p.returncode != 0:
        err = p.stderr.decode("utf-8", "replace")
        kind, key = common.classify_report(err, p.returncode)
        return {"crash": {"kind": kind, "key": key, "report": err[-4000:], "request": "covdrv " + " ".join(map(str, args))}}
    r = json.loads(p.stdout.decode())
    r["args"] = args
    return r


# ----------------------------------------------------------------- expressions
class E:
    """Random aset expression with its model value (a frozenset of ints)."""

    def __init__(self, text, model, depth):
        self.text, self.model, self.depth = text, model, depth


def gen_expr(rng, base, U, depth):
    def num(v):
        return rng.choice(["%d", "0x%x", "0o%o"]) % v
    if depth == 0 or rng.random() < 0.3:
        a, b = rng.randint(0, U), rng.randint(0, U)
        if rng.random() < 0.15:
            b = a
        lo, hi = min(a, b), max(a, b)
        return E("%s %s aset" % (num(base + a), num(base + b)), frozenset(range(base + lo, base + hi)), 0)
    k = rng.random()
    x = gen_expr(rng, base, U, depth - 1)
    if k < 0.15:
        n = base + rng.randint(0, U - 1)
        return E("%s %s add" % (x.text, num(n)), x.model | {n}, x.depth + 1)
    if k < 0.3:
        n = base + rng.randint(0, U - 1)
        return E("%s %s sub" % (x.text, num(n)), x.model - {n}, x.depth + 1)
    y = gen_expr(rng, base, U, depth - 1)
    if k < 0.55:
        return E("%s %s add" % (x.text, y.text), x.model | y.model, max(x.depth, y.depth) + 1)
    if k < 0.8:
        return E("%s %s sub" % (x.text, y.text), x.model - y.model, max(x.depth, y.depth) + 1)
    return E("%s %s overlap" % (x.text, y.text), x.model & y.model, max(x.depth, y.depth) + 1)


def runs(model):
    s = sorted(model)
    out = []
    for v in s:
        if out and out[-1][1] == v:
            out[-1][1] = v + 1
        else:
            out.append([v, v + 1])
    return [(a, b) for a, b in out]


def aset_ranges(val):
    return [(int(a), int(a) + int(l)) for a, l in val["r"]]


def parse_show(s):
    if s == "[)":   # the library's explicit notation for the empty set
        return []
    out = []
    for m in re.finditer(r"\[(0x[0-9a-f]+|0), (0x[0-9a-f]+|0)\)", s):
        out.append((int(m.group(1), 16), int(m.group(2), 16)))
    rebuilt = ", ".join("[%s, %s)" % (hex(a) if a else "0", hex(b) if b else "0") for a, b in out)
    return out if rebuilt == s else None


def job_query(payload):
    d = common.get_driver()
    bad = []
    n = 0
    nontriv = 0
    for (t1, m1, t2, m2) in payload:
        m1, m2 = frozenset(m1), frozenset(m2)

        def fail(what, **kw):
            bad.append((what, dict(kw, e1=t1, e2=t2)))

        def one(q, inp=""):
            r = d.run(q, inp=inp)
            if r["st"] != "done" or r["evbad"]:
                fail("unexpected status", q=q, st=r["st"], msg=r.get("msg"), ev=r["ev"])
                return None
            return r
        r = one(t1)
        n += 1
        if r is None:
            continue
        if len(r["res"]) != 1 or r["res"][0][-1]["t"] != "as":
            fail("expression did not yield one address set", res=r["res"], stderr=r["stderr"]); continue
        v = r["res"][0][-1]
        want = runs(m1)
        if len(want) > 1:
            nontriv += 1
        if aset_ranges(v) != want:
            fail("wrong set", got=aset_ranges(v), want=want)
        ps = parse_show(v["sh"])
        if ps != want:
            fail("rendering is not the list of maximal runs", got=v["sh"], want=want)
        inp = "q:" + common.hx(t1)
        obs = one('(|A| A [A length] [A low] [A high] [A elem] [A relem] [A range] [A ?empty] [A "%s"])', inp)
        n += 1
        if obs is None or len(obs["res"]) != 1:
            fail("observation query failed", res=obs and obs["res"]); continue
        st = obs["res"][0]
        ln, lo, hi, el, rel, rg, em, sh = [x["v"] for x in st[1:]]
        if [int(x["v"]) for x in ln] != [len(m1)]:
            fail("length", got=ln, want=len(m1))
        if [int(x["v"]) for x in lo] != ([min(m1)] if m1 else []):
            fail("low", got=lo)
        if [int(x["v"]) for x in hi] != ([max(m1) + 1] if m1 else []):
            fail("high", got=hi)
        if [int(x["v"]) for x in el] != sorted(m1) or [x["p"] for x in el] != list(range(len(m1))):
            fail("elem", got=[(x["v"], x["p"]) for x in el])
        if [int(x["v"]) for x in rel] != sorted(m1, reverse=True) or [x["p"] for x in rel] != list(range(len(m1))):
            fail("relem", got=[(x["v"], x["p"]) for x in rel])
        if [aset_ranges(x) for x in rg] != [[w] for w in want] or [x["p"] for x in rg] != list(range(len(want))):
            fail("range", got=[aset_ranges(x) for x in rg])
        if (len(em) == 1) != (not m1):
            fail("?empty", got=len(em))
        if any(x["d"] != "Dwarf_Address" for x in lo + hi + el + rel):
            fail("address words must yield address-domain constants")
        if bytes.fromhex(sh[0]["v"]).decode() != v["sh"]:
            fail("%s rendering differs from show")
        # membership of single addresses: inside, at both ends of every run, just outside
        probes = sorted(set([a for lo_, hi_ in want for a in (lo_, hi_ - 1, hi_, max(0, lo_ - 1))] + [0]))[:12]
        if probes:
            mq = one("(|A| A " + " ".join("[A %d ?contains] [A %d !contains]" % (a, a) for a in probes) + ")", inp)
            n += 1
            if mq is None or len(mq["res"]) != 1:
                fail("membership query failed")
            else:
                cells = [len(x["v"]) == 1 for x in mq["res"][0][1:]]
                for k, a in enumerate(probes):
                    if cells[2 * k] != (a in m1) or cells[2 * k + 1] != (a not in m1):
                        fail("?contains with an address operand", address=a, pos=cells[2 * k], neg=cells[2 * k + 1], want=(a in m1)); break
        # binary relations against the second expression
        rel2 = one("(|A B| A B [A B ?contains] [A B ?overlaps] [A B ?eq] [A B !eq] [A == B] [A != B])", inp="q:" + common.hx(t1 + " " + t2))
        n += 1
        if rel2 is None or len(rel2["res"]) != 1:
            fail("relation query failed"); continue
        cont, ovl, eq, ne, eq2, ne2 = [len(x["v"]) == 1 for x in rel2["res"][0][2:]]
        if eq != eq2 or ne != ne2:
            fail("infix and word comparison disagree", eq=eq, eq2=eq2, ne=ne, ne2=ne2)
        if cont != (m2 <= m1):
            fail("?contains", got=cont, want=m2 <= m1)
        if ovl != bool(m1 & m2):
            fail("?overlaps", got=ovl, want=bool(m1 & m2))
        if eq != (m1 == m2) or ne != (m1 != m2):
            fail("== / != disagree with set equality", eq=eq, ne=ne, want=(m1 == m2))
    return {"n": n, "nontriv": nontriv, "bad": bad[:30], "nbad": len(bad)}


# ----------------------------------------------------------------- wide intervals
# Sets far too large for an explicit model: sorted lists of disjoint non-adjacent runs, with the obvious interval algebra.
def iv_norm(rs):
    out = []
    for a, b in sorted(r for r in rs if r[0] < r[1]):
        if out and a <= out[-1][1]:
            out[-1][1] = max(out[-1][1], b)
        else:
            out.append([a, b])
    return [tuple(r) for r in out]


def iv_sub(x, y):
    out = []
    for a, b in x:
        cur = a
        for c, e in y:
            if e <= cur or c >= b:
                continue
            if c > cur:
                out.append((cur, c))
            cur = max(cur, e)
        if cur < b:
            out.append((cur, b))
    return iv_norm(out)


def iv_and(x, y):
    return iv_norm([(max(a, c), min(b, e)) for a, b in x for c, e in y])


WIDE = [0, 1, 2, (1 << 31) - 1, 1 << 32, (1 << 63) - 1, 1 << 63, (1 << 63) + 1, (1 << 64) - 0x1000, (1 << 64) - 2, (1 << 64) - 1]


def job_wide(payload):
    """`A B aset` for operands anywhere in [0, 2^64-1], in either order, and the set algebra on such sets."""
    seed, count = payload
    d = common.get_driver()
    rng = random.Random(seed)
    bad = []
    n = 0

    def num(v):
        return rng.choice(["%d", "0x%x"]) % v

    def pick():
        return rng.choice(WIDE) if rng.random() < 0.7 else rng.getrandbits(rng.choice([20, 40, 63, 64]))
    for _ in range(count):
        a, b, c, e = pick(), pick(), pick(), pick()
        x, y = iv_norm([(min(a, b), max(a, b))]), iv_norm([(min(c, e), max(c, e))])
        tx, ty = "%s %s aset" % (num(a), num(b)), "%s %s aset" % (num(c), num(e))
        q = ("%s %s (|A B| [A] [%s %s aset] [A B add] [A B sub] [A B overlap] [A low] [A high] [A length] [A ?empty] [A B ?overlaps] [A B ?contains]"
             " [A %s ?contains] [A %s ?contains] [A range])" % (tx, ty, num(b), num(a), num(min(a, b)), num(max(a, b))))
        r = d.run(q)
        n += 1
        w = dict(query=q)
        if r["st"] != "done" or len(r["res"]) != 1 or r["stderr"]:
            bad.append(("wide intervals: query failed or complained", dict(w, st=r["st"], msg=r.get("msg"), stderr=r["stderr"][:300]))); continue
        A, Ar, U_, D_, I_, lo, hi, ln, em, ov, ct, c_lo, c_hi, rg = [v["v"] for v in r["res"][0]]
        for what, got, want in (("aset", A, x), ("aset with the operands the other way round", Ar, x), ("add", U_, iv_norm(x + y)), ("sub", D_, iv_sub(x, y)),
                                ("overlap", I_, iv_and(x, y))):
            if len(got) != 1 or got[0]["t"] != "as" or aset_ranges(got[0]) != want:
                bad.append(("wide intervals: " + what, dict(w, got=[g.get("sh") for g in got], want=[(hex(p), hex(q_)) for p, q_ in want]))); break
        else:
            card = sum(q_ - p for p, q_ in x)
            if [int(v["v"]) for v in lo] != ([x[0][0]] if x else []) or [int(v["v"]) for v in hi] != ([x[-1][1]] if x else []):
                bad.append(("wide intervals: low / high", dict(w, low=[v["v"] for v in lo], high=[v["v"] for v in hi])))
            if [int(v["v"]) for v in ln] != [card]:
                bad.append(("wide intervals: length", dict(w, got=[v["v"] for v in ln], want=card)))
            if (len(em) == 1) != (not x) or (len(ov) == 1) != bool(iv_and(x, y)) or (len(ct) == 1) != (not iv_sub(y, x)):
                bad.append(("wide intervals: ?empty / ?overlaps / ?contains", dict(w, empty=len(em), overlaps=len(ov), contains=len(ct))))
            # (the single address 2^64-1 is itself an interval ending at 2^64, beyond what the statement scopes: not asked about)
            if (len(c_lo) == 1) != bool(x) or (len(c_hi) != 0 and max(a, b) != (1 << 64) - 1):
                bad.append(("wide intervals: membership of the end points (half-open)", dict(w, low_end=len(c_lo), high_end=len(c_hi))))
            if [aset_ranges(v) for v in rg] != [[t] for t in x]:
                bad.append(("wide intervals: range", dict(w, got=[v.get("sh") for v in rg])))
    return {"n": n, "nontriv": n, "bad": bad[:30], "nbad": len(bad)}


def run(chk):
    quick = chk.tier == "quick"
    rng = chk.rng()
    pool = common.Pool()
    U = 10 if quick else 12
    jobs = [("exhaustive", U, b) for b in BASES]
    nrand = 16 if quick else 64
    jobs += [("random", chk.seed * 1000 + i, 20000 if quick else 100000, 200) for i in range(nrand)]
    tot = dict(checks=0, transitions=0, pairs=0)
    for r in pool.map(job_covdrv, jobs):
        if "crash" in r:
            chk.crash_violation(r, "covdrv"); continue
        if "timeout" in r or "harness_error" in r:
            chk.inconc(str(r)[:300]); continue
        for k in tot:
            tot[k] += r[k]
        for b in r["bad"]:
            chk.violation("coverage:%s" % b["what"], {"case": b, "covdrv": r["args"]})
        if r["nbad"] > len(r["bad"]):
            chk._nviol += r["nbad"] - len(r["bad"])

    # through the language
    nq = 3000 if quick else 120000
    cases = []
    for i in range(nq):
        base = rng.choice(BASES + [0, 0, 0x1000])
        Uq = rng.choice([6, 12, 20])
        if base + Uq > (1 << 64) - 2:
            Uq = 12
        e1 = gen_expr(rng, base, Uq, rng.randint(0, 4))
        # the second operand: often the same set built differently
        k = rng.random()
        if k < 0.35:
            rs = runs(e1.model)
            rng.shuffle(rs)
            if rs:
                t2 = " ".join("%d %d aset" % (b, a) for a, b in rs) + " add" * (len(rs) - 1)
            else:
                t2 = "%d %d aset" % (base, base)
            e2 = E(t2, e1.model, 1)
        else:
            e2 = gen_expr(rng, base, Uq, rng.randint(0, 3))
        cases.append((e1.text, sorted(e1.model), e2.text, sorted(e2.model)))
    qn = 0
    nontriv = 0
    QB = 100
    for r in pool.map(job_query, [cases[i:i + QB] for i in range(0, len(cases), QB)]):
        if "crash" in r:
            chk.crash_violation(r, "query"); continue
        if "timeout" in r or "harness_error" in r:
            chk.inconc(str(r)[:300]); continue
        qn += r["n"]
        nontriv += r["nontriv"]
        for what, w in r["bad"]:
            chk.violation("aset-word:%s" % what, w)
        if r["nbad"] > len(r["bad"]):
            chk._nviol += r["nbad"] - len(r["bad"])
    wide_n = 0
    for r in pool.map(job_wide, [(chk.seed * 7919 + i, 60) for i in range(16 if quick else 400)]):
        if "crash" in r:
            chk.crash_violation(r, "query"); continue
        if "timeout" in r or "harness_error" in r:
            chk.inconc(str(r)[:300]); continue
        wide_n += r["n"]
        for what, w in r["bad"]:
            chk.violation("aset-word:%s" % what, w)
        if r["nbad"] > len(r["bad"]):
            chk._nviol += r["nbad"] - len(r["bad"])
    qn += wide_n
    hs = pool.hook_stats()
    pool.finish()
    chk.cov.update({
        "wide_interval_cases": wide_n,
        "evaluations": tot["transitions"] + tot["checks"] + tot["pairs"] + qn,
        "distinct_nontrivial": (1 << U) * len(BASES) + nontriv,
        "rule": "exhaustive part: every subset of a %d-address universe (built by the real add()) x every add/remove/is_covered/is_overlap/"
                "intersect interval and every pair of subsets for add_all/remove_all/==, at bases %s; distinct_nontrivial = number of "
                "(subset, base) states enumerated + query expressions whose set has more than one run" % (U, BASES),
        "exhaustive": True,
        "exhaustive_scope": "one-step transition relation over all canonical states of the small universe; random part is sampling",
        "direct_transitions": tot["transitions"], "direct_query_checks": tot["checks"], "state_pairs": tot["pairs"],
        "language_level_queries": qn, "language_level_expressions": len(cases),
        "H4_canonical_form_checks_in_library": hs.get("coverage_checks"),
        "samples": [dict(e1=c[0], set1=c[1][:8], e2=c[2]) for c in cases[:3]] + [dict(covdrv=list(j)) for j in jobs[:5]],
    })
    chk.assumptions += ["addresses whose range end does not exceed 2^64-1, as the statement scopes it",
                        "H4 only runs inside libzwerg (queries); covdrv checks canonical form itself after every operation"]
    if tot["transitions"] < 100000 or qn < 1000:
        chk.inconc("too few events")


def replay(path):
    w = json.load(open(path))["witness"]
    print(json.dumps(w, indent=1))
    return 0
