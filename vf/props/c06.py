"""C06 -- cooked view = raw view with imports inlined and inherited attributes integrated.

Monitors: O3 ground truth by construction -- the forest model (vf/dwforest.py) computes the
expected cooked view: units (partial units not listed), the pre-order of every unit with every
DW_TAG_imported_unit replaced, recursively and in place, by the imported root's children (with
the import route), the children of every DIE, and per DIE the own attributes (stored order)
followed by the set of attributes integrated through specification/abstract_origin chains;
O2 the word-pair equivalences of the statement on the engine alone:
@AT_x = attribute ?AT_x cooked value, ?AT_x <=> attribute ?AT_x yields, name = @AT_name."""
import json, os, random
from vf import common, zcheck, dwgen, dwforest, dwcorpus
from vf.dwgen import DW_AT, DW_TAG


def ident(v):
    return (v["o"], tuple(v["imp"]))


def check_forest(d, f, path, tag, out, bad):
    inp = "d:" + common.hx(path)
    # ---- units and cooked pre-order
    r = d.run("unit (|U| [U root] [U entry] )", inp=inp, fuel=0, max=100000, timeout=600)
    if r["st"] != "done":
        bad.append(("cooked-query-failed", dict(file=tag, st=r["st"], msg=r.get("msg")))); return
    cus = dwforest.cooked_units(f)
    got_roots = [s[-2]["v"][0]["o"] for s in r["res"]]
    if got_roots != [u.root.offset for u in cus]:
        bad.append(("cooked-units-differ", dict(file=tag, want=[hex(u.root.offset) for u in cus], got=[hex(x) for x in got_roots]))); return
    for u, s in zip(cus, r["res"]):
        want = [(x.offset, r_) for x, r_ in dwforest.cooked_preorder(u.root)]
        got = [ident(x) for x in s[-1]["v"]]
        out["dies"] += len(want)
        if got != want:
            k = next((i for i, (a, b) in enumerate(zip(got, want)) if a != b), min(len(got), len(want)))
            bad.append(("cooked-preorder-differs", dict(file=tag, unit=hex(u.root.offset), want_len=len(want), got_len=len(got), first_difference=k,
                                                         want=repr(want[k:k + 3]), got=repr(got[k:k + 3])))); return
        if any(r_ for _, r_ in want):
            out["routed"] += sum(1 for _, r_ in want if r_)
    # ---- children of every DIE, attributes of every DIE
    r2 = d.run("entry (|D| D [D child] [D attribute [label value, form value]] [D raw attribute [label value, form value]])", inp=inp, fuel=0, max=1000000, timeout=600)
    if r2["st"] != "done":
        bad.append(("cooked-query-failed", dict(file=tag, st=r2["st"], msg=r2.get("msg")))); return
    model = {}
    for u in cus:
        for x, route in dwforest.cooked_preorder(u.root):
            model[(x.offset, route)] = (x, route)
    for s in r2["res"]:
        D = s[-4]
        key = ident(D)
        if key not in model:
            bad.append(("entry-yields-unknown-DIE", dict(file=tag, die=repr(key)))); return
        x, route = model[key]
        want_ch = [(c.offset, r_) for c, r_ in dwforest.cooked_children(x, route)]
        got_ch = [ident(c) for c in s[-3]["v"]]
        out["child_lists"] += 1
        if got_ch != want_ch:
            bad.append(("cooked-children-differ", dict(file=tag, die=repr(key), want=repr(want_ch[:6]), got=repr(got_ch[:6])))); return
        own, integ, amb = dwforest.cooked_attrs(x)
        got = [(int(a["v"][0]["v"]), int(a["v"][1]["v"])) for a in s[-2]["v"]]
        rawgot = [(int(a["v"][0]["v"]), int(a["v"][1]["v"])) for a in s[-1]["v"]]
        out["attr_lists"] += 1
        if rawgot != own:
            bad.append(("raw-attributes-differ", dict(file=tag, die=repr(key), want=own, got=rawgot))); return
        if got[:len(own)] != own:
            bad.append(("cooked-attributes:own-attributes-not-first-or-changed", dict(file=tag, die=repr(key), want=own, got=got))); return
        if integ:
            out["integrated"] += 1
        rest = got[len(own):]
        names = [a for a, _ in got]
        if len(set(names)) != len(names):
            bad.append(("cooked-attributes:a-name-twice", dict(file=tag, die=repr(key), got=got))); return
        if any(a in (DW_AT["sibling"], DW_AT["declaration"]) for a, _ in rest):
            bad.append(("cooked-attributes:sibling-or-declaration-integrated", dict(file=tag, die=repr(key), got=got))); return
        want_rest = sorted((a, f_) if a not in amb else (a, None) for a, f_, _ in integ)
        got_rest = sorted((a, f_) if a not in amb else (a, None) for a, f_ in rest)
        if want_rest != got_rest:
            bad.append(("cooked-attributes:integrated-set-differs", dict(file=tag, die=repr(key), want=want_rest, got=got_rest))); return
        if amb:
            out["ambiguous"] += 1
    # ---- values seen through integration: decl_line
    r3 = d.run("entry (|D| D [D @AT_decl_line value] [D name])", inp=inp, fuel=0, max=1000000, timeout=600)
    if r3["st"] == "done":
        for s in r3["res"]:
            key = ident(s[-3])
            x, route = model[key]
            nv = dwforest.nearest_value(x, "decl_line")
            got = [int(v["v"]) for v in s[-2]["v"]]
            if nv is not None and nv[0] != "indirect" and not isinstance(nv[1], tuple):
                out["values"] += 1
                if got != [nv[1]]:
                    bad.append(("integrated-value-differs:@AT_decl_line", dict(file=tag, die=repr(key), want=nv[1], got=got))); break
            nn = dwforest.nearest_value(x, "name")
            gotn = [bytes.fromhex(v["v"]) for v in s[-1]["v"]]
            if nn is not None and nn[0] != "indirect":
                out["values"] += 1
                if gotn != [bytes(nn[1])]:
                    bad.append(("integrated-value-differs:name", dict(file=tag, die=repr(key), want=repr(nn[1]), got=repr(gotn)))); break


PAIR_NAMES = ["name", "decl_line", "decl_file", "external", "linkage_name", "type", "byte_size", "declaration", "sibling", "specification", "abstract_origin",
              "low_pc", "const_value", "location", "accessibility", "inline", "artificial", "prototyped", "encoding", "language", "producer", "import", "upper_bound",
              "data_member_location", "bit_size", "alignment", "decl_column", "high_pc", "stmt_list", "comp_dir", "object_pointer", "frame_base", "call_line", "MIPS_linkage_name",
              "GNU_all_call_sites", "visibility", "GNU_pubnames", "GNU_all_tail_call_sites", "discr_value", "GNU_vector", "GNU_deleted"]


def check_pairs(d, path, tag, out, bad, skip_ambiguous=None, forms=True):
    """Word-pair equivalences on the engine alone, for every DIE."""
    inp = "d:" + common.hx(path)
    for x in PAIR_NAMES:
        q = "entry (|D| D [D @AT_%s] [D attribute ?AT_%s cooked value] [D ?AT_%s] [D attribute ?AT_%s])" % (x, x, x, x)
        r = d.run(q, inp=inp, fuel=0, max=1000000, timeout=600)
        if r["st"] == "error" and "No DWARF" in r.get("msg", ""):
            return
        if r["st"] != "done":
            # both sides of the pair raise alike? then nothing is claimed
            ra = d.run("entry [@AT_%s]" % x, inp=inp, fuel=0, max=1000000, timeout=600)
            rb = d.run("entry [attribute ?AT_%s cooked value]" % x, inp=inp, fuel=0, max=1000000, timeout=600)
            if (ra["st"] == "error") != (rb["st"] == "error"):
                bad.append(("pair:@AT_x-vs-attribute-value:one-side-raises", dict(file=tag, attr=x, a=ra["st"], b=rb["st"], msg=(ra.get("msg") or rb.get("msg")))))
            continue
        for s in r["res"]:
            out["pairs"] += 1
            key = ident(s[-5])
            amb = bool(skip_ambiguous) and key in skip_ambiguous and ATCODE.get(x) in skip_ambiguous[key]
            a = [json.dumps(strip(v), sort_keys=True) for v in s[-4]["v"]]
            b = [json.dumps(strip(v), sort_keys=True) for v in s[-3]["v"]]
            if a:
                out["pairs_nonempty"] += 1
            if a != b:
                bad.append(("pair:@AT_x-differs-from-attribute-?AT_x-cooked-value" + (":DIE-with-specification-and-abstract_origin-both-defining-it" if amb else ""),
                            dict(file=tag, attr=x, die=repr(key), a=a[:2], b=b[:2]))); break
            if (len(s[-2]["v"]) > 0) != (len(s[-1]["v"]) > 0):
                bad.append(("pair:?AT_x-disagrees-with-attribute-?AT_x", dict(file=tag, attr=x, die=repr(key)))); break
    # ?FORM_x on an attribute holds exactly when its `form` is that constant (both views); for every form that occurs in the file
    # and for the standard forms whose code is the low byte of a vendor form's code
    for view in (("", "raw ") if forms else ()):
        rf = d.run("(|Dw| [Dw %sentry attribute form])" % view, inp=inp, fuel=0, max=10, timeout=600)
        if rf["st"] != "done" or not rf["res"]:
            break
        present = sorted(set(v["f"] for v in rf["res"][0][-1]["v"] if v["t"] == "c" and v["f"].startswith("DW_FORM_")))
        for fn in sorted(set(present + ["DW_FORM_ref_sig8", "DW_FORM_implicit_const", "DW_FORM_strp", "DW_FORM_ref4", "DW_FORM_GNU_ref_alt", "DW_FORM_GNU_strp_alt"])):
            short = fn[len("DW_FORM_"):]
            e = "Dw %sentry attribute" % view
            rq = d.run("(|Dw| [%s ?(form == %s)] [%s ?FORM_%s] [%s !FORM_%s] [%s] (|A B C D| (A == B) (A length C length add == D length)))" % (e, fn, e, short, e, short, e),
                       inp=inp, fuel=0, max=10, timeout=600)
            out["pairs"] += 1
            if rq["st"] == "reject":
                continue        # a form name the vocabulary does not have
            if rq["st"] != "done" or len(rq["res"]) != 1:
                bad.append(("pair:?FORM_x-disagrees-with-form==DW_FORM_x", dict(file=tag, form=fn, view=view.strip() or "cooked", st=rq["st"], msg=rq.get("msg")))); break
    r = d.run("entry (|D| D [D name] [D @AT_name])", inp=inp, fuel=0, max=1000000, timeout=600)
    if r["st"] == "done":
        for s in r["res"]:
            out["pairs"] += 1
            key = ident(s[-3])
            if skip_ambiguous and key in skip_ambiguous and DW_AT["name"] in skip_ambiguous[key]:
                continue
            if [v["v"] for v in s[-2]["v"]] != [v["v"] for v in s[-1]["v"]]:
                bad.append(("pair:name-differs-from-@AT_name", dict(file=tag, die=repr(key), name=[v["sh"] for v in s[-2]["v"]], at=[v["sh"] for v in s[-1]["v"]]))); break


ATCODE = dict(DW_AT)
ATCODE["import"] = DW_AT["import_"]


def strip(v):
    return {k: x for k, x in v.items() if k != "p"} if isinstance(v, dict) else v


def job(payload):
    kind, arg = payload
    d = common.get_driver()
    out = {"files": 0, "dies": 0, "routed": 0, "child_lists": 0, "attr_lists": 0, "integrated": 0, "ambiguous": 0, "values": 0, "pairs": 0, "pairs_nonempty": 0, "bad": [], "samples": []}
    try:
        if kind == "forest":
            seed, count = arg
            rng = random.Random(seed)
            os.makedirs(os.path.join(common.RUN, "forests"), exist_ok=True)
            for i in range(count):
                f = dwforest.gen_forest(rng, rng.choice(["imports", "imports", "plain", "many"]), siblings=False)
                dwforest.add_inheritance(rng, f, both_prob=(1.0 if i == 0 and seed % 4 == 0 else 0.25))
                dwforest.add_siblings(rng, f.units)
                p = os.path.join(common.RUN, "forests", "c06-%d-%d.o" % (seed, i))
                dwgen.write(f, p)
                tag = "%s (seed %d/%d)" % (os.path.basename(p), seed, i)
                bad = []
                check_forest(d, f, p, tag, out, bad)
                amb = {}
                for u in dwforest.cooked_units(f):
                    for x, route in dwforest.cooked_preorder(u.root):
                        names = dwforest.cooked_attrs(x)[2]
                        if names:
                            amb[(x.offset, route)] = names
                check_pairs(d, p, tag, out, bad, skip_ambiguous=amb, forms=(i % 8 == 0))
                out["files"] += 1
                out["bad"] += bad[:4]
                if not bad:
                    os.unlink(p)
                if len(out["samples"]) < 1:
                    out["samples"].append(dict(file=tag, units=len(f.units), dies=sum(1 for _ in f.all_dies())))
        else:
            bad = []
            check_pairs(d, arg, os.path.basename(arg), out, bad)
            out["files"] += 1
            out["bad"] += bad[:4]
    except common.DriverCrash as ex:
        out["bad"].append(("crash:" + getattr(ex, "key", ex.kind), dict(what=str(arg)[:100], report=ex.report[-3000:])))
    except common.DriverTimeout:
        out["bad"].append(("hang", dict(what=str(arg)[:100])))
    out["bad"] = out["bad"][:30]
    return out


def run(chk):
    quick = chk.tier == "quick"
    pool = common.Pool()
    tot, ctx, samples = {}, {}, []
    from vf.props import c02
    nf = 160 if quick else 3200
    jobs = [("forest", (chk.seed * 86028121 + i, 5)) for i in range(nf // 5)]
    files = c02.sample_files()
    corpus = dwcorpus.build(quick)
    sel = [p for p, l in corpus][::(8 if quick else 1)]
    jobs += [("file", f) for f in files + sel]
    zcheck.consume(chk, pool.map(job, jobs), tot, ctx, samples, "C06")
    pool.finish()
    chk.cov.update({
        "evaluations": tot.get("dies", 0) + tot.get("pairs", 0),
        "distinct_nontrivial": tot.get("routed", 0) + tot.get("integrated", 0),
        "rule": "one evaluation = one cooked DIE compared with the forest model (position in the cooked pre-order incl. import route, child list, attribute "
                "list) or one (DIE, attribute name) word-pair comparison; non-trivial = DIEs reached through at least one import + DIEs with integrated attributes",
        "generated_forests": nf, "cooked_dies_compared": tot.get("dies", 0), "dies_reached_through_imports": tot.get("routed", 0),
        "child_lists_compared": tot.get("child_lists", 0), "attribute_lists_compared": tot.get("attr_lists", 0),
        "dies_with_integrated_attributes": tot.get("integrated", 0), "dies_skipped_as_ambiguous": tot.get("ambiguous", 0),
        "integrated_values_compared": tot.get("values", 0),
        "word_pair_cells": tot.get("pairs", 0), "word_pair_cells_nonempty": tot.get("pairs_nonempty", 0),
        "sample_and_compiled_files_for_word_pairs": len(files) + len(sel),
        "samples": samples[:4],
    })
    chk.assumptions += ["when two different sources at the same distance define an attribute the DIE lacks, the statement does not say which wins: such DIEs are counted, not judged",
                        "cyclic specification chains are malformed DWARF and not generated"]
    if tot.get("dies", 0) < 2000 or tot.get("integrated", 0) < 50:
        chk.inconc("too few events")


def replay(path):
    w = json.load(open(path))
    print(json.dumps(w, indent=1)[:4000])
    return 0
