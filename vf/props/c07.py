"""C07 -- attribute values decode to the right type, value, sign and constant domain.

Monitor: O3 ground truth by construction.  Generated DIEs carry attributes in every form at
boundary values; a decoding table written from the property statement maps (attribute, form,
stored value, encoding of the DIE's type through typedef/cv/enumeration chains) to the
expected (kind, value, sign, domain/rendering): strings byte for byte, references as the
target DIE, flags as booleans, addresses and section offsets as hexadecimal constants,
enumerated attributes as the named constant dwarf.h gives that number, integral data by form
(sdata/udata) or by the type's encoding; what the tool documents as uninterpreted (ref_sig8,
discr_value, unknown non-user attribute with a data form, float encodings, data16) must come
out as a diagnostic, an error, or a raw block -- never as a plausible number."""
import json, os, random
from vf import common, zcheck, dwgen, dwforest, dwdump, dwcorpus
from vf.dwgen import Die, Unit, Forest, DW_AT, DW_FORM, DW_ATE, DW_TAG

ENUM_ATTRS = {"language": "DW_LANG_", "inline": "DW_INL_", "encoding": "DW_ATE_", "accessibility": "DW_ACCESS_", "visibility": "DW_VIS_",
              "virtuality": "DW_VIRTUALITY_", "identifier_case": "DW_ID_", "calling_convention": "DW_CC_", "ordering": "DW_ORD_",
              "decimal_sign": "DW_DS_", "endianity": "DW_END_", "defaulted": "DW_DEFAULTED_"}
UNSIGNED_ATTRS = ["byte_size", "bit_size", "upper_bound", "lower_bound", "count", "alignment", "high_pc", "data_bit_offset", "start_scope"]
SIGNED_ATTRS = ["byte_stride", "bit_stride", "decimal_scale"]
HEX_ATTRS = ["stmt_list"]
SIZES = {"data1": 8, "data2": 16, "data4": 32, "data8": 64}


def boundary(bits, rng):
    return rng.choice([0, 1, (1 << (bits - 1)) - 1, 1 << (bits - 1), (1 << bits) - 1, (1 << bits) - 2, rng.getrandbits(bits)])


def sext(v, bits):
    return v - (1 << bits) if v >> (bits - 1) else v


class TypeZoo:
    def __init__(self, rng, version):
        self.dies = []
        self.kinds = []     # (die, kind) kind in signed/unsigned/bool/address/float/none/enum-*
        def base(enc, size, name):
            d = Die("base_type", [("name", "string", name), ("byte_size", "data1", size), ("encoding", "data1", DW_ATE[enc])])
            self.dies.append(d)
            return d
        s = base("signed", 4, b"int"); u = base("unsigned", 4, b"unsigned"); sc = base("signed_char", 1, b"schar"); uc = base("unsigned_char", 1, b"uchar")
        bo = base("boolean", 1, b"bool"); utf = base("UTF", 2, b"char16_t"); ad = base("address", 8, b"addr"); fl = base("float", 8, b"double")
        s8 = base("signed", 8, b"long"); u8 = base("unsigned", 8, b"ulong")
        ptr = Die("pointer_type", [("byte_size", "data1", 8), ("type", "ref4", s)]); self.dies.append(ptr)
        npt = Die("unspecified_type", [("name", "string", b"decltype(nullptr)")]); self.dies.append(npt)
        st = Die("structure_type", [("name", "string", b"S"), ("byte_size", "data1", 4)]); self.dies.append(st)
        self.kinds = [(s, "signed"), (u, "unsigned"), (sc, "signed"), (uc, "unsigned"), (bo, "bool"), (utf, "unsigned"), (ad, "unsigned"), (fl, "float"),
                      (s8, "signed"), (u8, "unsigned"), (ptr, "address"), (npt, "address"), (st, "none")]
        # the types are stored in another order in every file: one offset holds a signed type in this file and an unsigned one in the next
        # (whatever is remembered about "the type at offset X" must not survive from one file to another)
        rng.shuffle(self.dies)
        # typedef / cv chains
        for _ in range(5):
            t, k = rng.choice(self.kinds[:11])
            for _ in range(rng.choice([1, 2, 3, 3, 5, 8])):
                w = Die(rng.choice(["typedef", "const_type", "volatile_type", "restrict_type"]), [("type", rng.choice(["ref4", "ref_udata", "ref_addr"]), t)])
                if w.tag == DW_TAG["typedef"]:
                    w.attrs.insert(0, ("name", "string", b"td"))
                self.dies.append(w)
                t = w
            self.kinds.append((t, k))
        # enumerations
        self.enums = []
        for under, forms, kind in ((s, None, "signed"), (u, None, "unsigned"), (None, "sdata", "signed"), (None, "udata", "unsigned"), (None, "mixed", "small"), (None, "data", "small")):
            e = Die("enumeration_type", [("name", "string", b"E"), ("byte_size", "data1", 4)])
            if under is not None:
                e.attrs.append(("type", "ref4", under))
            self.dies.append(e)
            self.enums.append((e, forms, kind))


def gen_value_forest(rng):
    version = rng.choice([2, 3, 4, 4, 5, 5])
    root = Die("compile_unit", [("name", "string", b"v.c"), ("language", rng.choice(["data1", "data2"]), rng.choice([1, 2, 4, 0x0c, 0x21, 0x1c])), ("low_pc", "addr", 0x1000)])
    zoo = TypeZoo(rng, version)
    root.children += zoo.dies
    expect = {}      # die id -> list of (attr name, expectation)
    dies = []

    def add(d, exps):
        dies.append(d)
        expect[id(d)] = exps
    # --- const_value by type
    for _ in range(rng.randint(10, 30)):
        t, kind = rng.choice(zoo.kinds)
        form = rng.choice(["data1", "data2", "data4", "data8", "sdata", "udata", "block1"] + (["implicit_const"] if version >= 5 else []))
        d = Die(rng.choice(["variable", "template_value_parameter", "formal_parameter"]), [("name", "string", b"c"), ("type", "ref4", t)])
        exp = const_expectation(rng, d, form, kind)
        if exp is not None:
            add(d, [("const_value", exp)])
    # --- enumerators
    for e, forms, kind in zoo.enums:
        for i in range(rng.randint(1, 4)):
            if forms in (None, "data"):
                form = rng.choice(["data1", "data2", "data4"])
            elif forms == "mixed":
                form = "sdata" if i % 2 else "udata"
            else:
                form = forms
            en = Die("enumerator", [("name", "string", b"e%d" % i)])
            k = kind
            if forms == "mixed" or forms == "data":
                k = "small"      # signedness cannot be told: only values whose sign does not matter are generated for fixed forms
            exp = const_expectation(rng, en, form, k)
            if exp is not None:
                e.children.append(en)
                expect[id(en)] = [("const_value", exp)]
        e.has_children = None
        # --- variables / template parameters whose type is this enumeration (directly or through a typedef/cv chain):
        # signedness comes from the underlying type or, lacking one, from the LEB form all the enumerators use
        vk = kind if (forms is None or (forms in ("sdata", "udata") and e.children)) else "small"
        for _ in range(rng.randint(1, 3)):
            t = e
            for _ in range(rng.randint(0, 2)):
                w = Die(rng.choice(["typedef", "const_type", "volatile_type"]), [("type", "ref4", t)])
                if w.tag == DW_TAG["typedef"]:
                    w.attrs.insert(0, ("name", "string", b"etd"))
                root.children.append(w)
                t = w
            d = Die(rng.choice(["variable", "template_value_parameter", "formal_parameter"]), [("name", "string", b"ev"), ("type", "ref4", t)])
            exp = const_expectation(rng, d, rng.choice(["data1", "data2", "data4", "data8", "sdata", "udata"]), vk)
            if exp is not None:
                add(d, [("const_value", exp)])
    # --- plain attributes
    for _ in range(rng.randint(10, 30)):
        d = Die(rng.choice(["variable", "subprogram", "member", "structure_type"]), [])
        exps = []
        k = rng.random()
        if k < 0.15:
            s = bytes(rng.choice(b"abc xyz_09\xc3\xa9\x7f\x01") for _ in range(rng.randint(0, 12)))
            f = rng.choice(["string", "strp"] + (["line_strp", "strx", "strx1", "strx2", "strx3", "strx4"] if version >= 5 else []))
            if f.startswith("strx") and b"\0" in s:
                f = "string"
            d.attrs.append(("name", f, s)); exps.append(("name", ("str", s)))
        if k < 0.3:
            v = rng.random() < 0.5
            if version >= 4 and rng.random() < 0.5:
                d.attrs.append(("external", "flag_present", None)); exps.append(("external", ("bool", 1)))
            else:
                raw = rng.choice([0, 1, 2, 255])
                d.attrs.append(("external", "flag", raw)); exps.append(("external", ("bool", 1 if raw else 0)))
        a = rng.choice(list(ENUM_ATTRS))
        f = rng.choice(["data1", "data2", "data4", "udata"])
        v = rng.choice([0, 1, 2, 3, 4, 5, 0x40, 0x80, 0xff] if f != "data1" else [0, 1, 2, 3, 5, 0x80, 0xff])
        if f == "udata":
            pass   # form decides: udata is decoded as a plain unsigned number by the form switch
        if a == "encoding" and d.tag == DW_TAG["variable"]:
            d.attrs.append((a, f, v)); exps.append((a, ("named", ENUM_ATTRS[a], v) if f != "udata" else ("uint", v)))
        elif a != "encoding":
            d.attrs.append((a, f, v)); exps.append((a, ("named", ENUM_ATTRS[a], v) if f != "udata" else ("uint", v)))
        a = rng.choice(UNSIGNED_ATTRS)
        f = rng.choice(list(SIZES) + ["udata", "sdata"])
        if f in SIZES:
            v = boundary(SIZES[f], rng); d.attrs.append((a, f, v)); exps.append((a, ("uint", v)))
        elif f == "udata":
            v = rng.choice([0, 127, 128, (1 << 64) - 1, rng.getrandbits(50)]); d.attrs.append((a, f, v)); exps.append((a, ("uint", v)))
        else:
            v = rng.choice([0, -1, 63, -64, -(1 << 63), (1 << 63) - 1]); d.attrs.append((a, f, v)); exps.append((a, ("sint", v)))
        if rng.random() < 0.5:
            a = rng.choice(SIGNED_ATTRS)
            f = rng.choice(list(SIZES))
            v = boundary(SIZES[f], rng); d.attrs.append((a, f, v)); exps.append((a, ("sint", sext(v, SIZES[f]))))
        if rng.random() < 0.3:
            f = rng.choice(["data1", "data2", "udata"]); v = rng.randint(0, 250)
            d.attrs.append(("decl_line", f, v)); exps.append(("decl_line", ("uint", v)))
        if rng.random() < 0.3:
            v = rng.choice([0, 0x1000, (1 << 64) - 1, rng.getrandbits(47)])
            f = rng.choice(["addr"] + (["addrx", "addrx1", "addrx2", "addrx3", "addrx4"] if version >= 5 else []))
            # DW_FORM_addrx (the ULEB128 one) is not among the forms at_value() knows: reported as an error today; were it decoded, then to this address
            d.attrs.append(("entry_pc", f, v)); exps.append(("entry_pc", ("addr-or-error" if f == "addrx" else "addr", v)))
        if rng.random() < 0.3:
            t = rng.choice(zoo.dies)
            forms = ["ref2", "ref4", "ref8", "ref_udata", "ref_addr"] + (["ref1"] if t in zoo.dies[:3] else [])
            d.attrs.append(("type", rng.choice(forms), t)); exps.append(("type", ("die", t)))
        if rng.random() < 0.2 and version >= 4:
            v = rng.getrandbits(11)
            d.attrs.append(("stmt_list", "sec_offset", v)); exps.append(("stmt_list", ("hex", v)))
        if rng.random() < 0.15:
            d.attrs.append((0x2107 + rng.randint(0, 5), "data2", 0x8001)); exps.append((None, None))     # user attribute: decoded unsigned, not judged by name
        if d.attrs:
            add(d, exps)
    # --- values integrated over one and two DW_AT_abstract_origin / DW_AT_specification hops: decoded as the DIE that STORES them would decode them
    # (the DIEs on the way carry types of the opposite signedness)
    signed_t = [t for t, k in zoo.kinds[:11] if k == "signed"]
    unsigned_t = [t for t, k in zoo.kinds[:11] if k == "unsigned"]
    for _ in range(rng.randint(2, 6)):
        sg = rng.random() < 0.5
        own, other = (signed_t, unsigned_t) if sg else (unsigned_t, signed_t)
        form = rng.choice(["data1", "data2", "data4"])
        raw = {"data1": 0xff, "data2": 0xfffe, "data4": 0xfffffffd}[form] if rng.random() < 0.8 else 5
        holder = Die("variable", [("name", "string", b"held"), ("type", "ref4", rng.choice(own)), ("const_value", form, raw)])
        dies.append(holder); expect[id(holder)] = []
        cur = holder
        for hop in range(rng.randint(1, 3)):
            nxt = Die("variable", [(rng.choice(["abstract_origin", "specification"]), "ref4", cur)] + ([("type", "ref4", rng.choice(other))] if rng.random() < 0.7 else []))
            dies.append(nxt)
            want = sext(raw, SIZES[form]) if sg else raw
            expect[id(nxt)] = [("const_value", ("cooked-sint" if sg else "cooked-uint", want))]
            cur = nxt
    # --- attributes of the location class holding one expression: a block in DWARF 2/3 (decoded by attribute name), exprloc from DWARF 4 on
    for _ in range(rng.randint(2, 6)):
        at = rng.choice(["location", "frame_base", "data_member_location", "data_location", "return_addr", "static_link", "use_location",
                         "vtable_elem_location", "string_length", "segment"])
        form = "exprloc" if version >= 4 else rng.choice(["block1", "block1", "block2", "block"])
        ops = rng.choice([[("constu", rng.randint(0, 300))], [("breg7", rng.choice([0, -8, 64])), ("deref",)], [("plus_uconst", rng.randint(0, 200))], [("lit0",), ("lit5",), ("plus",)]])
        d = Die(rng.choice(["variable", "subprogram", "member"]), [("name", "string", b"lc"), (at, form, ops)])
        add(d, [(at, ("loc", [dwgen.DW_OP[o[0]] for o in ops]))])
    # --- DW_AT_ranges: a list in .debug_ranges (DWARF 2-4), offsets relative to the unit's low_pc until a base-address entry
    ranges_blob = bytearray()
    if version <= 4:
        import struct
        for _ in range(rng.randint(1, 4)):
            off = len(ranges_blob)
            base = 0x1000
            model = set()
            for _ in range(rng.randint(0, 5)):
                if rng.random() < 0.2:
                    base = rng.choice([0, 0x2000, 1 << 40, 0x1000])
                    ranges_blob += struct.pack("<QQ", (1 << 64) - 1, base)
                else:
                    b = rng.randint(1, 0x300)
                    e = b + rng.choice([0, 1, 2, 0x10, 0x40])
                    ranges_blob += struct.pack("<QQ", b, e)
                    model.update(range(base + b, base + e))
            ranges_blob += struct.pack("<QQ", 0, 0)
            d = Die(rng.choice(["lexical_block", "subprogram", "inlined_subroutine"]), [("ranges", "sec_offset" if version >= 4 else rng.choice(["data4", "data8"]), off)])
            runs = []
            for a in sorted(model):
                if runs and runs[-1][1] == a:
                    runs[-1][1] = a + 1
                else:
                    runs.append([a, a + 1])
            add(d, [("ranges", ("aset", [tuple(r) for r in runs]))])
    rnglists = b""
    addr_prefill = []
    if version >= 5:
        # .debug_rnglists with an offset table: DW_FORM_rnglistx picks a list by index, DW_FORM_sec_offset by its section offset;
        # entries of every kind (offset_pair relative to the unit's low_pc or to a base_address(x) entry, start_end, start_length, and the
        # startx_* kinds through .debug_addr)
        import struct
        addr_prefill = [rng.choice([0x4000, 0x10000, 1 << 33]) + 0x100 * i for i in range(rng.randint(2, 5))]
        rng.shuffle(addr_prefill)
        lists = []
        for _ in range(rng.randint(1, 5)):
            base = 0x1000
            model = set()
            blob = bytearray()
            for _ in range(rng.randint(0, 5)):
                k = rng.random()
                if k < 0.15:
                    base = rng.choice([0, 0x2000, 1 << 40, 0x1000]); blob += bytes([5]) + struct.pack("<Q", base)
                elif k < 0.25:
                    i = rng.randrange(len(addr_prefill)); base = addr_prefill[i]; blob += bytes([1]) + dwgen.uleb(i)
                elif k < 0.5:
                    b = rng.randint(1, 0x300); e = b + rng.choice([0, 1, 2, 0x10, 0x40])
                    blob += bytes([4]) + dwgen.uleb(b) + dwgen.uleb(e); model.update(range(base + b, base + e))
                elif k < 0.65:
                    b = rng.randint(1, 1 << 20); e = b + rng.choice([0, 1, 0x20])
                    blob += bytes([6]) + struct.pack("<QQ", b, e); model.update(range(b, e))
                elif k < 0.8:
                    b = rng.randint(1, 1 << 20); n = rng.choice([0, 1, 0x20])
                    blob += bytes([7]) + struct.pack("<Q", b) + dwgen.uleb(n); model.update(range(b, b + n))
                elif k < 0.9:
                    i = rng.randrange(len(addr_prefill)); n = rng.choice([0, 3, 0x20])
                    blob += bytes([3]) + dwgen.uleb(i) + dwgen.uleb(n); model.update(range(addr_prefill[i], addr_prefill[i] + n))
                else:
                    i, j = rng.randrange(len(addr_prefill)), rng.randrange(len(addr_prefill))
                    if not 0 <= addr_prefill[j] - addr_prefill[i] <= 0x1000:
                        continue      # an entry that ends before it begins is not a range
                    blob += bytes([2]) + dwgen.uleb(i) + dwgen.uleb(j); model.update(range(addr_prefill[i], addr_prefill[j]))
            blob += bytes([0])
            runs = []
            for a in sorted(model):
                if runs and runs[-1][1] == a:
                    runs[-1][1] = a + 1
                else:
                    runs.append([a, a + 1])
            lists.append((bytes(blob), [tuple(r) for r in runs]))
        offs, pos = [], 4 * len(lists)
        for blob, _ in lists:
            offs.append(pos); pos += len(blob)
        body = struct.pack("<HBBI", 5, 8, 0, len(lists)) + b"".join(struct.pack("<I", o) for o in offs) + b"".join(b for b, _ in lists)
        rnglists = struct.pack("<I", len(body)) + body
        for i, (blob, runs) in enumerate(lists):
            for _ in range(rng.randint(1, 2)):
                if rng.random() < 0.5:
                    d = Die(rng.choice(["lexical_block", "subprogram", "inlined_subroutine"]), [("ranges", "rnglistx", i)])
                else:
                    d = Die(rng.choice(["lexical_block", "subprogram", "inlined_subroutine"]), [("ranges", "sec_offset", 12 + offs[i])])
                add(d, [("ranges", ("aset", runs))])
        root.attrs += [("str_offsets_base", "sec_offset", dwgen.STRX_BASE), ("addr_base", "sec_offset", dwgen.ADDRX_BASE), ("rnglists_base", "sec_offset", 12)]
        expect[id(root)] = [("str_offsets_base", ("hex", dwgen.STRX_BASE)), ("addr_base", ("hex", dwgen.ADDRX_BASE)), ("rnglists_base", ("hex", 12))]
    # --- DW_AT_macro_info: the unit's macro information, one value per stored entry (type, line or code, text or file number)
    macinfo = b""
    if rng.random() < 0.6:
        ents = []
        depth = 0
        for _ in range(rng.randint(0, 8)):
            k = rng.choice(["define", "undef", "start_file", "end_file", "vendor_ext"])
            if k == "end_file" and depth == 0:
                continue
            txt = bytes(rng.choice(b"ABC_xyz 019()") for _ in range(rng.randint(1, 10)))
            n = rng.choice([0, 1, 127, 128, 300, 70000])
            if k == "define": ents.append((1, n, txt))
            elif k == "undef": ents.append((2, n, txt))
            elif k == "start_file": ents.append((3, n, rng.randint(0, 200))); depth += 1
            elif k == "end_file": ents.append((4,)); depth -= 1
            else: ents.append((255, n, txt))
        ents += [(4,)] * depth
        pad = bytes([1]) + dwgen.uleb(1) + b"unrelated 1\0" + bytes([0]) if rng.random() < 0.5 else b""    # another unit's entries first
        macinfo = pad
        for e in ents:
            macinfo += bytes([e[0]])
            if len(e) == 3:
                macinfo += dwgen.uleb(e[1]) + (e[2] + b"\0" if isinstance(e[2], bytes) else dwgen.uleb(e[2]))
        macinfo += bytes([0])
        root.attrs.append(("macro_info", "sec_offset" if version >= 4 else "data4", len(pad)))
        expect.setdefault(id(root), []).append(("macro_info", ("macinfo", ents)))
    root.children += dies
    u = Unit(root, version)
    f = Forest([u], ranges=bytes(ranges_blob))
    f.debug_rnglists = rnglists
    f.debug_macinfo = macinfo
    f.addr_table = list(addr_prefill)
    f.strx_table = [b"filler-%d" % i for i in range(rng.randint(1, 3))] if version >= 5 else []
    f.debug_line = b"\0" * 4096     # libdw checks section offsets against the section size
    return f, expect, dies, zoo


def const_expectation(rng, d, form, kind):
    """Append DW_AT_const_value in FORM to D; return the expectation or None if the case is not generated."""
    if form in ("sdata", "udata", "implicit_const"):
        if form == "sdata" or form == "implicit_const":
            v = rng.choice([0, -1, 1, 63, -64, 127, -128, -(1 << 31), (1 << 63) - 1, -(1 << 63)])
            d.attrs.append(("const_value", form, v))
            if form == "sdata":
                return ("sint", v)
            # implicit_const: attribute dependent like the fixed forms, value is stored signed
            if kind == "signed":
                return ("sint", v)
            if kind in ("unsigned", "small"):
                if v < 0:
                    d.attrs.pop(); return None
                return ("uint", v)
            if kind == "bool":
                if v < 0:
                    d.attrs.pop(); return None
                return ("bool", v)
            if kind == "address":
                if v < 0:
                    d.attrs.pop(); return None
                return ("addr", v)
            return ("error",)
        v = rng.choice([0, 1, 127, 128, 255, 256, (1 << 32) - 1, (1 << 64) - 1])
        d.attrs.append(("const_value", form, v))
        return ("uint", v)
    if form == "block1":
        n = rng.choice([1, 2, 4, 8, 3])
        raw = rng.getrandbits(8 * n) if rng.random() < 0.7 else ((1 << (8 * n)) - 1)
        b = raw.to_bytes(n, "little")
        d.attrs.append(("const_value", "block1", b))
        if kind == "address":
            return ("error",)     # a block for a pointer: not interpreted; must not come out as a number silently
        if n == 3 or kind in ("float", "none"):
            return ("block", b)
        if kind == "small":
            if raw >> (8 * n - 1):
                d.attrs.pop(); return None
            return ("uint", raw)
        if kind == "address":
            return ("error",)     # a block for a pointer: not interpreted; must not come out as a number silently
        return typed(kind, raw, 8 * n)
    bits = SIZES[form]
    raw = boundary(bits, rng)
    if kind == "small" and raw >> (bits - 1):
        raw &= (1 << (bits - 1)) - 1
    d.attrs.append(("const_value", form, raw))
    if kind in ("float", "none"):
        return ("error",)
    if kind == "small":
        return ("uint", raw)
    return typed(kind, raw, bits)


def typed(kind, raw, bits):
    if kind == "signed":
        return ("sint", sext(raw, bits))
    if kind == "unsigned":
        return ("uint", raw)
    if kind == "bool":
        return ("bool", raw)
    if kind == "address":
        return ("addr", raw)
    return ("error",)


def value_ok(exp, vals, hdr, stderr):
    """Does the list of engine values VALS match expectation EXP?  Returns '' or a description."""
    k = exp[0]
    if k == "error":
        return "expected an error, got values"    # handled by the caller (errors abort the query)
    if len(vals) != 1 and k != "macinfo":
        return "expected one value, got %d" % len(vals)
    v = vals[0] if vals else None
    if k == "str":
        return "" if v["t"] == "s" and bytes.fromhex(v["v"]) == exp[1] else "string differs"
    if k == "die":
        return "" if v["t"] == "die" and v["o"] == exp[1].offset else "reference does not yield the target DIE"
    if k == "block":
        return "" if v["t"] == "q" and [int(x["v"]) for x in v["v"]] == list(exp[1]) and all(x["d"] == "hex" for x in v["v"]) else "block differs"
    if k == "loc":
        if v["t"] != "lle":
            return "expected a location expression, got a value of type %s (%s)" % (v["t"], v.get("sh", "")[:60])
        got = [o[0] for o in v["ops"]]
        return "" if got == list(exp[1]) else "operations differ (got %s)" % got
    if k == "macinfo":
        names = {1: "DW_MACINFO_define", 2: "DW_MACINFO_undef", 3: "DW_MACINFO_start_file", 4: "DW_MACINFO_end_file", 255: "DW_MACINFO_vendor_ext"}
        if len(vals) != len(exp[1]):
            return "expected %d macro entries, got %d" % (len(exp[1]), len(vals))
        for i, (e, v) in enumerate(zip(exp[1], vals)):
            if v["t"] != "q" or len(v["v"]) != len(e):
                return "macro entry %d: expected a sequence of %d, got %s" % (i, len(e), v.get("sh", "")[:60])
            c = v["v"][0]
            if c["t"] != "c" or int(c["v"]) != e[0] or c["f"] != names[e[0]]:
                return "macro entry %d: type differs (got %s)" % (i, c.get("f"))
            if len(e) == 3:
                c1, c2 = v["v"][1], v["v"][2]
                if c1["t"] != "c" or int(c1["v"]) != e[1]:
                    return "macro entry %d: line/code differs (got %s)" % (i, c1.get("sh"))
                if isinstance(e[2], bytes):
                    if c2["t"] != "s" or bytes.fromhex(c2["v"]) != e[2]:
                        return "macro entry %d: text differs" % i
                elif c2["t"] != "c" or int(c2["v"]) != e[2]:
                    return "macro entry %d: file number differs (got %s)" % (i, c2.get("sh"))
        return ""
    if k == "aset":
        if v["t"] != "as":
            return "expected an address set"
        got = [(int(a), int(a) + int(l)) for a, l in v["r"]]
        return "" if got == list(exp[1]) else "address set differs (got %s)" % got[:6]
    if v["t"] != "c":
        return "expected a constant"
    n = int(v["v"])
    if k == "uint":
        return "" if n == exp[1] and v["ar"] and v["d"] in ("dec", "line number", "column number") else "unsigned value/domain differs (got %s in %s)" % (n, v["d"])
    if k == "sint":
        return "" if n == exp[1] and v["ar"] else "signed value differs (got %s)" % n
    if k == "bool":
        return "" if v["d"] == "bool" and n == exp[1] and v["f"] == ("true" if exp[1] else "false") else "boolean differs (got %s in %s)" % (n, v["d"])
    if k == "addr":
        return "" if n == exp[1] and v["d"] == "Dwarf_Address" and v["f"] == (hex(exp[1]) if exp[1] else "0") else "address differs (got %s in %s)" % (v["f"], v["d"])
    if k == "hex":
        return "" if n == exp[1] and v["f"] == (hex(exp[1]) if exp[1] else "0") else "hexadecimal constant differs (got %s)" % v["f"]
    if k == "named":
        pfx, num = exp[1], exp[2]
        names = [nm for nm, x in hdr.items() if nm.startswith(pfx) and x == num and not nm.endswith("_lo_user") and not nm.endswith("_hi_user")]
        if n != num or v["ar"]:
            return "enumerated attribute is not a named constant of value %d (got %s in %s)" % (num, v["f"], v["d"])
        if names and v["f"] not in names:
            return "named constant renders as %s, header names are %s" % (v["f"], names)
        if not names and any(v["f"] == nm for nm in hdr):
            return "unknown code rendered under a real name %s" % v["f"]
        return ""
    return "?"


def check_forest(d, f, expect, dies, path, tag, out, bad, hdr):
    inp = "d:" + common.hx(path)
    alld = {id(x): x for x in f.all_dies()}
    good_names = set()
    for did, exps in expect.items():
        x = alld[did]
        for name, exp in exps:
            if name is None:
                continue
            out["attrs"] += 1
            q = "raw entry (offset == %#x) [attribute ?AT_%s value]" % (x.offset, name)
            if exp[0].startswith("cooked-"):
                q = "entry (offset == %#x) [@AT_%s]" % (x.offset, name)
                exp = (exp[0][7:],) + tuple(exp[1:])
            r = d.run(q, inp=inp, fuel=0, max=10, timeout=120)
            kind = exp[0]
            w = dict(file=tag, die=hex(x.offset), attr=name, expectation=[str(e)[:60] for e in exp])
            if kind == "error":
                out["expected_errors"] += 1
                # must NOT come out as a plausible number: an error, a diagnostic, or a raw block
                if r["st"] == "done" and r["res"] and r["res"][0][-1]["v"]:
                    v = r["res"][0][-1]["v"][0]
                    if v["t"] == "c" and not r["stderr"]:
                        bad.append(("uninterpretable-value-silently-decoded-as-a-number:%s" % name, dict(w, got=v["f"])))
                continue
            if kind == "addr-or-error":
                if r["st"] == "error" and "DW_FORM_addrx" in (r.get("msg") or ""):
                    out["expected_errors"] += 1
                    continue
                kind = "addr"; exp = ("addr",) + tuple(exp[1:])
            if r["st"] != "done" or len(r["res"]) != 1:
                bad.append(("attribute-value-query-failed:%s" % name, dict(w, st=r["st"], msg=r.get("msg")))); continue
            vals = r["res"][0][-1]["v"]
            why = value_ok(exp, vals, hdr, r["stderr"])
            if why:
                bad.append(("attribute-value-differs:%s:%s" % (name, kind), dict(w, why=why, got=[v.get("sh") for v in vals]))); 
            else:
                out["decoded_ok"] += 1
            out["kinds"][kind] = out["kinds"].get(kind, 0) + 1
            if len(bad) > 6:
                return


def job(payload):
    kind, arg = payload
    d = common.get_driver()
    out = {"files": 0, "attrs": 0, "decoded_ok": 0, "expected_errors": 0, "kinds": {}, "bad": [], "samples": []}
    hdr = dwdump.header_constants()
    try:
        seed, count = arg
        rng = random.Random(seed)
        os.makedirs(os.path.join(common.RUN, "forests"), exist_ok=True)
        for i in range(count):
            f, expect, dies, zoo = gen_value_forest(rng)
            p = os.path.join(common.RUN, "forests", "c07-%d-%d.o" % (seed, i))
            dwgen.write(f, p)
            tag = "%s (seed %d/%d, DWARF %d)" % (os.path.basename(p), seed, i, f.units[0].version)
            bad = []
            check_forest(d, f, expect, dies, p, tag, out, bad, hdr)
            out["files"] += 1
            out["bad"] += bad[:5]
            if not bad:
                os.unlink(p)
            if len(out["samples"]) < 1:
                out["samples"].append(dict(file=tag, attributes=sum(len(v) for v in expect.values())))
    except common.DriverCrash as ex:
        out["bad"].append(("crash:" + getattr(ex, "key", ex.kind), dict(what=str(arg)[:100], report=ex.report[-3000:])))
    except common.DriverTimeout:
        out["bad"].append(("hang", dict(what=str(arg)[:100])))
    k = out.pop("kinds")
    for a, b in k.items():
        out["kind_" + a] = b
    out["bad"] = out["bad"][:30]
    return out


CORPUS_ATTRS = ["name", "byte_size", "decl_line", "decl_column", "type", "encoding", "language", "external", "declaration", "const_value", "upper_bound",
                "producer", "comp_dir", "linkage_name", "accessibility", "inline", "prototyped", "artificial", "sibling", "specification", "abstract_origin",
                "object_pointer", "bit_size", "alignment", "call_line", "call_column", "data_member_location", "virtuality", "containing_type", "high_pc",
                "decl_file", "call_file", "enum_class", "explicit", "data_bit_offset", "lower_bound", "count", "calling_convention", "defaulted", "noreturn"]


def job_corpus(path):
    """Compiler output: the engine's value of whitelisted attributes vs llvm-dwarfdump's independent decoding."""
    d = common.get_driver()
    out = {"corpus_files": 0, "corpus_attrs": 0, "corpus_compared": 0, "bad": []}
    hdr = dwdump.header_constants()
    truth = dwdump.dump_values(path)
    if not truth:
        return out
    if dwdump.altlink(path) is not None:
        return out
    inp = "d:" + common.hx(path)
    tag = os.path.basename(path)
    out["corpus_files"] += 1
    try:
        for name in CORPUS_ATTRS:
            code = DW_AT.get(name if name != "import" else "import_")
            if code is None:
                code = hdr.get("DW_AT_" + name)
            r = d.run("raw entry ?AT_%s [offset, [attribute ?AT_%s value]]" % (name, name), inp=inp, fuel=0, max=2000000, timeout=600)
            if r["st"] != "done":
                # an error on some DIE aborts the query: fall back to nothing (errors are allowed as 'reported')
                continue
            for s in r["res"]:
                off = int(s[-1]["v"][0]["v"])
                vals = s[-1]["v"][1]["v"]
                t = [x for x in truth.get(off, []) if x[0] == code]
                if len(t) > 1:
                    continue      # the producer emitted the attribute twice on this DIE (old gcc does): nothing to compare one value with
                if len(t) != 1:
                    out["bad"].append(("corpus:attribute-presence-differs:%s" % name, dict(file=tag, die=hex(off)))); break
                out["corpus_attrs"] += 1
                a, f, tv = t[0]
                if tv is None or len(vals) != 1:
                    continue
                v = vals[0]
                ok = None
                if tv[0] == "str":
                    ok = v["t"] == "s" and bytes.fromhex(v["v"]) == tv[1]
                elif tv[0] == "ref":
                    ok = v["t"] == "die" and v["o"] == tv[1]
                elif tv[0] == "flag":
                    ok = v["t"] == "c" and v["d"] == "bool" and (int(v["v"]) != 0) == tv[1]
                elif tv[0] == "file":
                    ok = v["t"] == "s" and (bytes.fromhex(v["v"]).decode("utf-8", "replace") == tv[1] or tv[1].endswith(bytes.fromhex(v["v"]).decode("utf-8", "replace")))
                elif tv[0] == "named":
                    ok = v["t"] == "c" and hdr.get(tv[1]) == int(v["v"]) and (v["f"] == tv[1] or hdr.get(v["f"]) == hdr.get(tv[1]))
                elif tv[0] == "num":
                    if v["t"] != "c":
                        ok = None if name in ("data_member_location",) else False
                    else:
                        # the dumper shows the stored bits; the engine may show them sign-extended by type: equal modulo 2^64 / 2^bits
                        n = int(v["v"])
                        ok = any((n - tv[1]) % (1 << b) == 0 for b in (64,)) or any((n % (1 << b)) == (tv[1] % (1 << b)) and abs(tv[1]) < (1 << b) and -(1 << (b - 1)) <= n < (1 << b) for b in (8, 16, 32))
                        if name == "high_pc" or name == "low_pc":
                            ok = n == tv[1]
                if ok is None:
                    continue
                out["corpus_compared"] += 1
                if not ok:
                    out["bad"].append(("corpus:value-differs-from-independent-dumper:%s" % name, dict(file=tag, die=hex(off), dumper=str(tv)[:100], engine=v.get("sh"))))
                    break
    except common.DriverCrash as ex:
        out["bad"].append(("crash:" + getattr(ex, "key", ex.kind), dict(file=tag, report=ex.report[-3000:])))
    except common.DriverTimeout:
        out["bad"].append(("hang", dict(file=tag)))
    out["bad"] = out["bad"][:10]
    return out


SPECIAL = [("ref_sig8", ("type", "ref_sig8", 0x1122334455667788)), ("discr_value", ("discr_value", "data1", 5)), ("unknown-attr", (0x90, "data2", 7)),
           ("data16", ("byte_size", "data16", bytes(range(16))))]


def job_special(_):
    """Forms / attributes the tool documents as not interpreted: a diagnostic, an error or a raw block -- never a plausible number."""
    d = common.get_driver()
    out = {"special": 0, "bad": []}
    os.makedirs(os.path.join(common.RUN, "forests"), exist_ok=True)
    for name, attr in SPECIAL:
        for version in (4, 5):
            if attr[1] == "data16" and version < 5:
                continue
            x = Die("variable", [("name", "string", b"x"), attr])
            f = Forest([Unit(Die("compile_unit", [("name", "string", b"s.c")], [x]), version)])
            p = os.path.join(common.RUN, "forests", "c07-special-%s-%d.o" % (name, version))
            dwgen.write(f, p)
            r = d.run("entry (offset == %#x) attribute ?(label != DW_AT_name) value" % x.offset, inp="d:" + common.hx(p), fuel=0, max=10)
            out["special"] += 1
            if r["st"] == "done" and r["res"] and not r["stderr"]:
                v = r["res"][0][-1]
                if v["t"] == "c":
                    out["bad"].append(("uninterpretable-value-silently-decoded-as-a-number:%s" % name, dict(file=p, got=v["f"])))
            if r["st"] not in ("done", "error"):
                out["bad"].append(("special-form-status:%s" % name, dict(file=p, st=r["st"])))
            if not out["bad"]:
                os.unlink(p)
    return out


def job_loclists(payload):
    from vf.props import c17
    o = c17.job(("gen", payload))
    return {"loclist_files": o.get("files", 0), "loclist_attrs": o.get("loc_attrs", 0), "loclist_elements": o.get("elements", 0),
            "loclist_operations": o.get("operations", 0), "bad": [("location-list:" + k, w) for k, w in o.get("bad", []) if "abbrev" not in k], "samples": []}


def run(chk):
    quick = chk.tier == "quick"
    pool = common.Pool()
    tot, ctx, samples = {}, {}, []
    nf = 96 if quick else 2400
    zcheck.consume(chk, pool.map(job, [("gen", (chk.seed * 141650939 + i, 3)) for i in range(nf // 3)]), tot, ctx, samples, "C07")
    zcheck.consume(chk, pool.map(job_special, [0]), tot, ctx, samples, "C07 special")
    # location attributes that hold LISTS (.debug_loc, .debug_loclists incl. loclistx and default-location entries): one element per stored
    # range, in stored order, with the stored operations -- the generator and comparison of C17, run here for C07's own clause
    zcheck.consume(chk, pool.map(job_loclists, [(chk.seed * 86028121 + i, 5) for i in range(8 if quick else 160)]), tot, ctx, samples, "C07 location lists")
    corpus = dwcorpus.build(quick)
    from vf.props import c02
    files = [p for p, l in corpus][::(3 if quick else 1)] + c02.sample_files()
    zcheck.consume(chk, pool.map(job_corpus, files), tot, ctx, samples, "C07 corpus")
    pool.finish()
    chk.cov.update({
        "evaluations": tot.get("attrs", 0) + tot.get("special", 0),
        "distinct_nontrivial": tot.get("decoded_ok", 0) + tot.get("expected_errors", 0),
        "rule": "one evaluation = one generated attribute instance whose decoded value was compared with the decoding table; "
                "non-trivial = instances with an exact expected value + instances expected to be reported as uninterpretable",
        "generated_files": nf, "attribute_instances": tot.get("attrs", 0), "decoded_as_expected": tot.get("decoded_ok", 0),
        "expected_uninterpretable": tot.get("expected_errors", 0), "special_form_cases": tot.get("special", 0),
        "compiler_and_sample_files": tot.get("corpus_files", 0), "their_attribute_instances": tot.get("corpus_attrs", 0),
        "of_which_compared_with_llvm_dwarfdump_values": tot.get("corpus_compared", 0),
        "instances_by_expected_kind": {k[5:]: v for k, v in tot.items() if k.startswith("kind_")},
        "samples": samples[:4],
    })
    chk.assumptions += ["attributes whose signedness the standard makes type-dependent but the tool documents as fixed (lower_bound, upper_bound, count...) are judged as documented (unsigned for fixed-size forms)",
                        "for enumerations without an underlying type whose enumerators do not settle the signedness, only values with a clear high bit are generated"]
    if tot.get("attrs", 0) < 2000:
        chk.inconc("too few attribute instances")


def replay(path):
    w = json.load(open(path))
    print(json.dumps(w, indent=1)[:4000])
    return 0
