"""C20 -- printed values are faithful: constants round-trip, renderings are unambiguous.

Monitors: (a) every named constant word of the vocabulary: numeric `value` equals what
/usr/include/dwarf.h / elf.h define (parsed independently here), its rendering read back as
a word denotes an equal constant (itself unless the headers give that number several names);
(b) the short aliases (?TAG_x, ?AT_x, @AT_x, ?FORM_x, ?OP_x) select exactly what the long
spelling and the explicit `label == DW_X_x` comparison select, on every DIE/attribute/
operation of the sample files; (c) integers: the full rendering in each arithmetic domain and
the %d %x %o %b renderings, re-parsed as a literal, give an equal value of the same domain;
(d) the CLI's brief rendering of strings inside sequences is read back by the library as the
same bytes (hence different strings never print alike)."""
import json, os, re, random, subprocess
from vf import common, zcheck
from vf.lattice import lattice, LO, HI


def header_constants():
    """name -> value, parsed independently from the installed headers."""
    vals = {}
    try:
        txt = open("/usr/include/dwarf.h").read()
        for m in re.finditer(r"^\s*(DW_[A-Za-z0-9_]+)\s*=\s*(0x[0-9a-fA-F]+|\d+)", txt, re.M):
            vals.setdefault(m.group(1), int(m.group(2), 0))
        txt = open("/usr/include/elf.h").read()
        for m in re.finditer(r"^#define\s+(ST[TBV]_[A-Za-z0-9_]+)\s+(0x[0-9a-fA-F]+|\d+)\b", txt, re.M):
            vals.setdefault(m.group(1), int(m.group(2), 0))
    except OSError:
        pass
    return vals


def job_constants(payload):
    words, hdr = payload
    d = common.get_driver()
    out = {"constants": 0, "in_headers": 0, "roundtrip": 0, "renamed": 0, "bad": [], "samples": []}
    for w in words:
        try:
            r = d.run(w)
            if r["st"] != "done" or len(r["res"]) != 1 or len(r["res"][0]) != 1 or r["res"][0][0]["t"] != "c":
                continue     # not a constant word
            c = r["res"][0][0]
            out["constants"] += 1
            if w in hdr:
                out["in_headers"] += 1
                if int(c["v"]) != hdr[w]:
                    out["bad"].append(("constant-value-differs-from-header", dict(word=w, got=c["v"], header=hdr[w])))
            rv = d.run(w + " value")
            if rv["st"] != "done" or len(rv["res"]) != 1 or rv["res"][0][0]["v"] != c["v"] or rv["res"][0][0]["d"] != "dec":
                out["bad"].append(("value-word-disagrees", dict(word=w)))
            R = c["f"]
            rs = d.run(w + ' "%s"')
            if rs["st"] != "done" or bytes.fromhex(rs["res"][0][0]["v"]).decode("latin-1") != R:
                out["bad"].append(("%s-rendering-differs-from-full-rendering", dict(word=w, full=R)))
            r2 = d.run(R)
            if r2["st"] != "done" or len(r2["res"]) != 1 or r2["res"][0][0]["t"] != "c":
                out["bad"].append(("rendering-does-not-read-back-as-a-constant-word", dict(word=w, rendering=R, st=r2["st"], msg=r2.get("msg"))))
                continue
            c2 = r2["res"][0][0]
            out["roundtrip"] += 1
            if c2["v"] != c["v"] or c2["d"] != c["d"]:
                out["bad"].append(("rendering-reads-back-as-a-different-constant", dict(word=w, rendering=R, got=(c2["v"], c2["d"]), want=(c["v"], c["d"]))))
            re_ = d.run("%s %s ?eq" % (w, R))
            if re_["st"] != "done" or len(re_["res"]) != 1:
                out["bad"].append(("rendering-not-equal-to-the-constant", dict(word=w, rendering=R)))
            if R != w:
                out["renamed"] += 1
                if w in hdr and R in hdr and hdr[w] != hdr[R]:
                    out["bad"].append(("constant-renders-under-a-name-with-another-number", dict(word=w, rendering=R)))
                elif w in hdr and R not in hdr and not R.startswith("T_"):
                    out["bad"].append(("constant-renders-under-an-unknown-name", dict(word=w, rendering=R)))
            if len(out["samples"]) < 2:
                out["samples"].append(dict(word=w, value=c["v"], domain=c["d"], rendering=R))
        except common.DriverCrash as ex:
            out["bad"].append(("crash:" + getattr(ex, "key", ex.kind), dict(word=w, report=ex.report[-3000:])))
    return out


def job_alias(payload):
    path, fams = payload
    d = common.get_driver()
    out = {"alias_checks": 0, "alias_nonempty": 0, "bad": []}
    inp = "d:" + common.hx(path)
    tag = os.path.basename(path)

    def ids(q):
        r = d.run(q, inp=inp, fuel=0, max=1000000, timeout=120)
        if r["st"] != "done":
            return None
        return [json.dumps(s[-1], sort_keys=True) for s in r["res"]]
    for fam, names in fams.items():
        for x in names:
            try:
                if fam == "TAG":
                    qs = ["entry ?TAG_%s" % x, "entry ?DW_TAG_%s" % x, "entry ?(label == DW_TAG_%s)" % x, "entry !(!TAG_%s)" % x]
                elif fam == "AT":
                    qs = ["entry ?AT_%s" % x, "entry ?DW_AT_%s" % x, "entry ?(attribute label == DW_AT_%s)" % x, "entry !(!AT_%s)" % x]
                elif fam == "@AT":
                    qs = ["entry @AT_%s" % x, "entry @DW_AT_%s" % x, "entry attribute ?(label == DW_AT_%s) cooked value" % x]
                elif fam == "FORM":
                    qs = ["entry attribute ?FORM_%s" % x, "entry attribute ?DW_FORM_%s" % x, "entry attribute ?(form == DW_FORM_%s)" % x]
                else:
                    qs = ["entry @AT_location elem ?OP_%s" % x, "entry @AT_location elem ?DW_OP_%s" % x, "entry @AT_location elem ?(label == DW_OP_%s)" % x]
                res = [ids(q) for q in qs]
                out["alias_checks"] += 1
                if any(r is None for r in res):
                    out["bad"].append(("alias-query-failed", dict(file=tag, queries=qs))); continue
                if res[0]:
                    out["alias_nonempty"] += 1
                for q, r in zip(qs[1:], res[1:]):
                    if r != res[0]:
                        out["bad"].append(("alias-selects-differently:%s_%s" % (fam, x), dict(file=tag, a=qs[0], b=q, na=len(res[0]), nb=len(r))))
            except common.DriverCrash as ex:
                out["bad"].append(("crash:" + getattr(ex, "key", ex.kind), dict(file=tag, fam=fam, x=x, report=ex.report[-3000:])))
    return out


def job_alias_const(payload):
    """The assertion aliases applied to CONSTANTS: `C ?TAG_x` holds exactly when C equals DW_TAG_x -- in particular not for a
    constant of another family that merely carries the same number, and not for the plain number."""
    fam, names, byvalue = payload
    d = common.get_driver()
    out = {"alias_const_cells": 0, "alias_const_held": 0, "bad": []}
    pfx = {"TAG": "DW_TAG_", "AT": "DW_AT_", "FORM": "DW_FORM_", "OP": "DW_OP_"}[fam]
    for x in names:
        long = pfx + x
        r0 = d.run(long)
        if r0["st"] != "done" or len(r0["res"]) != 1 or r0["res"][0][0]["t"] != "c":
            continue
        num = int(r0["res"][0][0]["v"])
        cands = [long, str(num), "0x%x" % num] + [w for w in byvalue.get(num, []) if w != long][:6] + [pfx + names[(names.index(x) + 1) % len(names)]]
        for c in cands:
            try:
                want = d.run("%s %s ?eq" % (c, long))
                pos = d.run("%s ?%s_%s" % (c, fam, x))
                neg = d.run("%s !%s_%s" % (c, fam, x))
                lng = d.run("%s ?%s" % (c, long))
                out["alias_const_cells"] += 1
                if any(r["st"] != "done" for r in (want, pos, neg, lng)):
                    # a type error for this operand: then for every spelling alike
                    if len(set(r["st"] for r in (pos, neg, lng))) != 1:
                        out["bad"].append(("alias-on-constant:spellings-fail-differently:%s" % fam, dict(constant=c, alias=x)))
                    continue
                w = len(want["res"]) == 1
                if w:
                    out["alias_const_held"] += 1
                if (len(pos["res"]) == 1) != w or (len(neg["res"]) == 1) != (not w) or (len(lng["res"]) == 1) != w:
                    out["bad"].append(("alias-on-constant-disagrees-with-equality:%s" % fam, dict(constant=c, alias="?%s_%s" % (fam, x), equal=w,
                                                                                                 pos=len(pos["res"]), neg=len(neg["res"]), long=len(lng["res"]))))
            except common.DriverCrash as ex:
                out["bad"].append(("crash:" + getattr(ex, "key", ex.kind), dict(constant=c, alias=x, report=ex.report[-2500:])))
    out["bad"] = out["bad"][:40]
    return out


DOMS = {"dec": ("", "%d"), "hex": ("0x", "%x"), "oct": ("0o", "%o"), "bin": ("0b", None)}


def lit(v, dom):
    pfx, fmt = DOMS[dom]
    body = (fmt % abs(v)) if fmt else "{:b}".format(abs(v))
    return ("-" if v < 0 else "") + pfx + body


def job_ints(payload):
    cases = payload
    d = common.get_driver()
    out = {"ints": 0, "fmt": 0, "bad": []}
    for v, dom in cases:
        try:
            # the value arrives through the API's input stack (not through the lexer), is rendered, and the text read back
            r = d.run("( )", inp="%s:%d:%s:0" % ("i" if v < 0 else "u", v, dom))
            if r["st"] != "done" or len(r["res"]) != 1 or r["res"][0][0]["t"] != "c" or int(r["res"][0][0]["v"]) != v:
                out["bad"].append(("integer-from-api-not-delivered", dict(value=v, domain=dom, got=str(r)[:300]))); continue
            c = r["res"][0][0]
            out["ints"] += 1
            R = c["f"]
            rl = d.run(lit(v, dom))
            if rl["st"] != "done" or len(rl["res"]) != 1 or rl["res"][0][0]["t"] != "c" or int(rl["res"][0][0]["v"]) != v:
                out["bad"].append(("integer-literal-not-read-as-its-value", dict(value=v, domain=dom, literal=lit(v, dom), got=str(rl)[:300]))); continue
            r2 = d.run(R)
            if r2["st"] != "done" or len(r2["res"]) != 1 or r2["res"][0][0]["t"] != "c":
                out["bad"].append(("integer-rendering-does-not-read-back", dict(value=v, domain=dom, rendering=R))); continue
            c2 = r2["res"][0][0]
            if int(c2["v"]) != v:
                out["bad"].append(("integer-rendering-reads-back-as-another-value", dict(value=v, domain=dom, rendering=R, got=c2["v"])))
            elif c2["d"] != dom:
                out["bad"].append(("integer-rendering-reads-back-in-another-domain:%s:%s" % (dom, "zero" if v == 0 else "nonzero"),
                                   dict(value=v, domain=dom, rendering=R, got=c2["d"])))
            for direc, want_dom in (("%d", "dec"), ("%x", "hex"), ("%o", "oct"), ("%b", "bin")):
                rf = d.run('"%s"' % direc, inp="%s:%d:%s:0" % ("i" if v < 0 else "u", v, dom))
                out["fmt"] += 1
                if rf["st"] != "done" or len(rf["res"]) != 1 or rf["res"][0][0]["t"] != "s":
                    out["bad"].append(("directive-does-not-render", dict(value=v, directive=direc, got=str(rf)[:300]))); continue
                s = bytes.fromhex(rf["res"][0][0]["v"]).decode("latin-1")
                r3 = d.run(s)
                if r3["st"] != "done" or len(r3["res"]) != 1 or r3["res"][0][0]["t"] != "c":
                    out["bad"].append(("directive-rendering-does-not-read-back", dict(value=v, directive=direc, rendering=s))); continue
                c3 = r3["res"][0][0]
                if int(c3["v"]) != v:
                    out["bad"].append(("directive-rendering-reads-back-as-another-value", dict(value=v, directive=direc, rendering=s, got=c3["v"])))
                elif c3["d"] != want_dom:
                    out["bad"].append(("integer-rendering-reads-back-in-another-domain:%s:%s" % (want_dom, "zero" if v == 0 else "nonzero"),
                                       dict(value=v, directive=direc, rendering=s, got=c3["d"])))
        except common.DriverCrash as ex:
            out["bad"].append(("crash:" + getattr(ex, "key", ex.kind), dict(value=v, domain=dom, report=ex.report[-3000:])))
    return out


ALPHA = [b'"', b"\\", b"%", b"\x00", b"\n", b"\t", b"\x01", b"\x7f", b" ", b"0", b"a", b"\xff", b"s", b"(", b"\x1b", b"1"]


def enc_literal(b):
    """A Zwerg literal denoting exactly the bytes B (our own encoder; not what is under test)."""
    out = ['"']
    for c in b:
        if 0x20 <= c < 0x7f and chr(c) not in '"\\%':
            out.append(chr(c))
        else:
            out.append("\\x%02x" % c)
    return "".join(out) + '"'


def job_strings(payload):
    strings, nested = payload
    d = common.get_driver()
    exe = os.path.join(common.VERIF, "build", common.VARIANT, "dwgrep", "dwgrep")
    env = dict(os.environ); env.update(common.ASAN_ENV)
    out = {"strings": 0, "bad": [], "samples": []}
    # one CLI invocation prints many one-value stacks, one per line
    if nested == 1:
        prog = "(" + ", ".join("[%s]" % enc_literal(s) for s in strings) + ")"
    else:
        prog = "(" + ", ".join("[[%s, 1], %s]" % (enc_literal(s), enc_literal(s)) for s in strings) + ")"
    p = subprocess.run([exe, "-e", prog], stdout=subprocess.PIPE, stderr=subprocess.PIPE, env=env, timeout=120)
    if p.returncode != 0:
        kind, key = common.classify_report(p.stderr.decode("utf-8", "replace"), p.returncode)
        out["bad"].append(("cli-failed:" + key, dict(rc=p.returncode, stderr=p.stderr.decode("utf-8", "replace")[-1500:])))
        return out
    lines = p.stdout.split(b"\n")
    if lines and lines[-1] == b"":
        lines.pop()
    if len(lines) != len(strings):
        # a string printed with a raw newline splits a record: cannot even be attributed
        out["bad"].append(("brief-string-rendering:record-count", dict(expected=len(strings), got=len(lines), first=repr(lines[:3]))))
        return out
    seen = {}
    for s, line in zip(strings, lines):
        out["strings"] += 1
        if line in seen and seen[line] != s:
            out["bad"].append(("brief-string-rendering:two-strings-print-alike", dict(a=repr(seen[line]), b=repr(s), printed=repr(line))))
        seen[line] = s
        try:
            r = d.run(line)
        except common.DriverCrash as ex:
            out["bad"].append(("crash:" + getattr(ex, "key", ex.kind), dict(printed=repr(line)))); continue
        ok = False
        if r["st"] == "done" and len(r["res"]) == 1 and len(r["res"][0]) == 1:
            v = r["res"][0][0]
            try:
                if nested == 1:
                    ok = bytes.fromhex(v["v"][0]["v"]) == s
                else:
                    ok = bytes.fromhex(v["v"][0]["v"][0]["v"]) == s and bytes.fromhex(v["v"][1]["v"]) == s
            except Exception:
                ok = False
        if not ok:
            out["bad"].append(("brief-string-rendering:does-not-read-back:" + classify_bytes(s), dict(bytes=repr(s), printed=repr(line), st=r["st"], msg=r.get("msg"))))
        if len(out["samples"]) < 2:
            out["samples"].append(dict(bytes=repr(s), printed=line.decode("latin-1")))
    return out


def classify_bytes(s):
    k = []
    if b'"' in s: k.append("quote")
    if b"%" in s: k.append("percent")
    if b"\x00" in s: k.append("nul")
    if any(c < 0x20 and c not in (0, 7, 8, 9, 10, 11, 12, 13) or c == 0x7f for c in s): k.append("control")
    if any(c >= 0x80 for c in s): k.append("high")
    return "+".join(k) or "plain"


def job_mixed(payload):
    """A rendering is a function of the value alone: the same constants rendered next to other constants -- as elements
    of one sequence through "%s", nested and top-level in one CLI run, twice in a row -- come out exactly as when each is
    rendered alone (no state of the output stream or of a name table may carry over from the neighbour)."""
    seed, count, names = payload
    d = common.get_driver()
    rng = random.Random(seed)
    exe = os.path.join(common.VERIF, "build", common.VARIANT, "dwgrep", "dwgrep")
    env = dict(os.environ); env.update(common.ASAN_ENV)
    out = {"mixed": 0, "mixed_cli": 0, "bad": []}
    alone = {}

    def solo(t):
        if t not in alone:
            r = d.run(t)
            rs = d.run(t + ' "%s"')
            if r["st"] != "done" or len(r["res"]) != 1 or rs["st"] != "done" or len(rs["res"]) != 1:
                alone[t] = None
            else:
                c = r["res"][0][0]
                alone[t] = (c["f"], c["b"], bytes.fromhex(rs["res"][0][0]["v"]).decode("latin-1"))
        return alone[t]

    def atom():
        k = rng.random()
        if k < 0.55:
            v = rng.choice([0, 1, 7, 10, 16, 255, 256, -1, -10, -255, (1 << 63) - 1, -(1 << 63), 1 << 63, (1 << 64) - 1, rng.getrandbits(rng.randint(1, 63))])
            return lit(v, rng.choice(list(DOMS)))
        if k < 0.9:
            return rng.choice(names)
        return rng.choice(["true", "false", "T_CONST", "T_STR"])
    for i in range(count):
        items = [atom() for _ in range(rng.randint(2, 5))]
        if rng.random() < 0.5:
            items.insert(rng.randrange(len(items) + 1), rng.choice(items))      # the same constant twice
        sol = [solo(t) for t in items]
        if any(x is None for x in sol):
            continue
        try:
            out["mixed"] += 1
            seqt = "[" + ", ".join(items) + "]"
            r = d.run(seqt)
            if r["st"] != "done" or len(r["res"]) != 1:
                out["bad"].append(("mixed-sequence-does-not-evaluate", dict(text=seqt))); continue
            el = r["res"][0][0]["v"]
            for t, e, s0 in zip(items, el, sol):
                if (e["f"], e["b"]) != s0[:2]:
                    out["bad"].append(("rendering-depends-on-neighbours:in-sequence", dict(text=seqt, element=t, alone=s0[:2], here=(e["f"], e["b"])))); break
            rs = d.run(seqt + ' "%s"')
            want = "[" + ", ".join(x[2] for x in sol) + "]"
            got = bytes.fromhex(rs["res"][0][0]["v"]).decode("latin-1") if rs["st"] == "done" and rs["res"] else None
            if got != want:
                out["bad"].append(("rendering-depends-on-neighbours:%s-of-sequence", dict(text=seqt, want=want, got=got)))
            rf = d.run(" ".join(items) + ' "' + " ".join("%s" for _ in items) + '"')
            want2 = " ".join(x[2] for x in sol)
            got2 = bytes.fromhex(rf["res"][0][0]["v"]).decode("latin-1") if rf["st"] == "done" and rf["res"] else None
            if got2 != want2:
                out["bad"].append(("rendering-depends-on-neighbours:several-%s", dict(text=" ".join(items), want=want2, got=got2)))
            if i % 4 == 0:
                # CLI: nested (brief) first, then each top-level (full), then nested again
                q = "%s, %s, %s" % (seqt, ", ".join(items), seqt)
                p = subprocess.run([exe, "-e", q], stdout=subprocess.PIPE, stderr=subprocess.PIPE, env=env, timeout=120, stdin=subprocess.DEVNULL)
                out["mixed_cli"] += 1
                wantl = ["[" + ", ".join(x[1] for x in sol) + "]"] + [x[0] for x in sol] + ["[" + ", ".join(x[1] for x in sol) + "]"]
                gotl = p.stdout.decode("latin-1").split("\n")[:-1]
                if p.returncode != 0 or gotl != wantl:
                    out["bad"].append(("rendering-depends-on-neighbours:cli", dict(query=q, want=wantl, got=gotl[:12], rc=p.returncode, stderr=p.stderr[-300:].decode("latin-1"))))
        except common.DriverCrash as ex:
            out["bad"].append(("crash:" + getattr(ex, "key", ex.kind), dict(items=items, report=ex.report[-3000:])))
        except subprocess.TimeoutExpired:
            out["bad"].append(("cli-hang", dict(items=items)))
    out["bad"] = out["bad"][:40]
    return out


def run(chk):
    quick = chk.tier == "quick"
    rng = chk.rng()
    pool = common.Pool()
    hdr = header_constants()
    d = common.Driver()
    voc = d.req("voc")["words"]
    d.kill()
    cand = [w for w in voc if re.match(r"^(DW_|T_|STT_|STB_|STV_|true$|false$)", w)]
    tot, ctx, samples = {}, {}, []
    zcheck.consume(chk, pool.map(job_constants, [(cand[i:i + 40], hdr) for i in range(0, len(cand), 40)]), tot, ctx, samples, "C20 constants")
    fams = {"TAG": sorted(w[5:] for w in voc if w.startswith("?TAG_")), "AT": sorted(w[4:] for w in voc if w.startswith("?AT_")),
            "@AT": sorted(w[4:] for w in voc if w.startswith("@AT_")), "FORM": sorted(w[6:] for w in voc if w.startswith("?FORM_")),
            "OP": sorted(w[4:] for w in voc if w.startswith("?OP_"))}
    tdir = os.path.join(common.REPO, "tests")
    files = [os.path.join(tdir, f) for f in (["nontrivial-types.o", "bitcount.o"] if quick else ["nontrivial-types.o", "bitcount.o", "dwz-partial", "char_16_32.o", "enum.o", "a1.out"])]
    ajobs = []
    for f in files:
        for fam, names in fams.items():
            for i in range(0, len(names), 25):
                ajobs.append((f, {fam: names[i:i + 25]}))
    zcheck.consume(chk, pool.map(job_alias, ajobs), tot, ctx, samples, "C20 aliases")
    byvalue = {}
    for w in cand:
        if w in hdr and w.startswith("DW_"):
            byvalue.setdefault(hdr[w], []).append(w)
    cjobs = []
    for fam in ("TAG", "AT", "FORM", "OP"):
        names = fams[fam] if not quick else fams[fam][::4]
        for i in range(0, len(names), 12):
            cjobs.append((fam, names[i:i + 12], byvalue))
    zcheck.consume(chk, pool.map(job_alias_const, cjobs), tot, ctx, samples, "C20 aliases on constants")
    L = lattice()
    ints = [(v, dom) for v in (L if not quick else L[::3] + [0, 1, -1, LO, HI]) for dom in DOMS]
    if not quick:
        ints += [(max(LO, min(HI, rng.getrandbits(rng.randint(1, 64)) * rng.choice([1, -1]))), rng.choice(list(DOMS))) for _ in range(20000)]
    zcheck.consume(chk, pool.map(job_ints, [ints[i:i + 100] for i in range(0, len(ints), 100)]), tot, ctx, samples, "C20 integers")
    # strings: all of length <= 2 over the alphabet (+ length 3 in thorough) + random longer
    import itertools
    strs = [b""] + [a for a in ALPHA] + [a + b for a in ALPHA for b in ALPHA]
    if not quick:
        strs += [a + b + c for a in ALPHA[:12] for b in ALPHA[:12] for c in ALPHA[:12]]
    for _ in range(300 if quick else 5000):
        strs.append(b"".join(rng.choice(ALPHA + [bytes([rng.randrange(256)])]) for _ in range(rng.randint(3, 12))))
    sjobs = [(strs[i:i + 60], 1) for i in range(0, len(strs), 60)] + [(strs[i:i + 60], 2) for i in range(0, len(strs), 240)]
    zcheck.consume(chk, pool.map(job_strings, sjobs), tot, ctx, samples, "C20 strings")
    named = [w for w in cand if w.startswith("DW_")]
    zcheck.consume(chk, pool.map(job_mixed, [(chk.seed * 29 + i, 60, named) for i in range(16 if quick else 320)]), tot, ctx, samples, "C20 mixed")
    pool.finish()
    chk.cov.update({
        "mixed_sequences_rendered_next_to_each_other": tot.get("mixed", 0), "of_which_also_through_the_CLI": tot.get("mixed_cli", 0),
        "evaluations": tot.get("constants", 0) + tot.get("alias_checks", 0) + tot.get("ints", 0) + tot.get("fmt", 0) + tot.get("strings", 0),
        "distinct_nontrivial": tot.get("roundtrip", 0) + tot.get("alias_nonempty", 0) + len(set(strs)),
        "rule": "one evaluation = one constant word round trip, one alias family member on one file, one integer x domain (+4 directives), or one string "
                "printed by the CLI and read back; non-trivial = constants actually read back + alias members selecting something + distinct strings",
        "vocabulary_words": len(voc), "constant_words": tot.get("constants", 0), "constants_found_in_headers": tot.get("in_headers", 0),
        "constants_rendered_under_another_name": tot.get("renamed", 0),
        "alias_x_constant_cells": tot.get("alias_const_cells", 0), "of_which_equal_to_the_aliased_constant": tot.get("alias_const_held", 0),
        "alias_members_checked": tot.get("alias_checks", 0), "alias_members_selecting_something": tot.get("alias_nonempty", 0),
        "integers_x_domains": tot.get("ints", 0), "directive_renderings": tot.get("fmt", 0),
        "strings_printed_and_read_back": tot.get("strings", 0), "string_alphabet": [repr(a) for a in ALPHA],
        "header_constants_parsed": len(hdr), "samples": samples[:6],
    })
    if tot.get("constants", 0) < 500 or tot.get("strings", 0) < 200 or len(hdr) < 500:
        chk.inconc("too few events")


def replay(path):
    w = json.load(open(path))
    print(json.dumps(w, indent=1)[:4000])
    return 0
