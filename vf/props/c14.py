"""C14 -- any byte string is either compiled or rejected with an error through the API.

Monitor: contract events recorded at the API boundary by zwdrv's call wrapper for every call
(returned NULL/false <=> error object set <=> non-empty message; *err untouched otherwise;
no exception across the C boundary; zw_result_next sets *out_stack), process terminations
(sanitizer, assert, terminate), watchdog (hang), stray output on stdout, reads beyond the
declared length (exact-size heap copy + ASan).  CLI: rejected / raising queries end with a
message on stderr and exit status 2.
Workload: all single bytes, all token pairs, mutated grammar strings, boundary integer
literals with every prefix, unterminated strings/splices at every nesting level, NUL bytes,
explicit lengths shorter than the buffer, run-time failures at every pull index."""
import json, os, random, subprocess, tempfile
from vf import common, zast, zgen, zcheck

TOKENS = ["(", ")", "?(", "!(", "[", "]", "`[", "{", "}", "?{", "!{", "*", "+", "?", ",", "||", "|", ":", ";", ":=", "if", "then", "else", "let",
          "\\dbg", "dup", "?eq", "!eq", "@x", ".x", "?0", "!1", '"', 'r"', '"a"', '"%s"', '"%( 1 %)"', '"\\', "%(", "%)", "1", "-1", "0x", "==", "=~", "#", "//", "/*", "*/", "A"]


def int_literals():
    out = []
    bounds = [(1 << 63) - 1, 1 << 63, (1 << 63) + 1, (1 << 64) - 1, 1 << 64, (1 << 64) + 1, 1 << 65, 0, 1, 7, 8]
    for v in bounds:
        for neg in ("", "-"):
            for fmt in ("%d", "0x%x", "0X%X", "0o%o", "0O%o", "0%o", "0b{:b}", "0B{:b}"):
                body = fmt.format(v) if "{" in fmt else fmt % v
                out.append(neg + body)
    out += ["0x", "0b", "0o", "-0x", "-0b", "-0o", "0X", "-", "-0", "00", "-00", "08", "09", "0b2", "0o8", "0xg", "1a", "1_", "0x_", "1e5", "0x" + "f" * 40,
            "1" * 100, "?0x", "?0b", "?08", "!0o", "?18446744073709551615", "?18446744073709551616", "?99999999999999999999", "?1a", "!0x10", "?-1", "?", "!"]
    return out


def unterminated():
    out = []
    base = '"a%( "b%( "c%( 1 %)" %)" %)"'
    for i in range(len(base) + 1):
        out.append(base[:i])
    for t in ['"', 'r"', '"\\', '"%', '"%(', '"%( (', '"%( )', '"%( " %)', '"%( ] %)"', '"\\x', '"\\x4', '"\\4', '"a"\\', '"a"\\ ', '"a"\\ r', "/*", "/* *", "1 /* x", "#", "//", "[", "(", "{", "?(", "let", "let A", "let A :=", "let A := 1", "if", "if 1", "if 1 then", "if 1 then 2", "if 1 then 2 else", "(|", "(|A", "(|A|", "1 :", ":", "let \"", "let \"a\" := 1;", "let \"%s\" := 1;"]:
        out.append(t)
    return out


def mutate_bytes(b, rng):
    b = bytearray(b)
    for _ in range(rng.randint(1, 3)):
        k = rng.random()
        if k < 0.3 and b:
            del b[rng.randrange(len(b))]
        elif k < 0.6:
            b.insert(rng.randrange(len(b) + 1), rng.choice([0, 0x22, 0x5c, 0x25, 0x28, 0x29, 0x0a, 0x60, 0xff, rng.randrange(256)]))
        elif k < 0.75 and b:
            i = rng.randrange(len(b)); j = min(len(b), i + rng.randint(1, 8))
            b[i:i] = b[i:j]
        elif k < 0.9 and b:
            del b[rng.randrange(len(b)):]
        else:
            b += rng.choice([b'"', b"%(", b"\\", b"(", b"/*"])
    return bytes(b[:300])


def judge(r, text, out, where):
    if r.get("evbad"):
        out["bad"].append(("api-contract", dict(text=repr(text)[:300], where=where, ev=r["ev"])))
    if r.get("stray"):
        out["bad"].append(("stray-stdout", dict(text=repr(text)[:300], where=where, n=r["stray"])))
    if r["st"] == "reject":
        out["rejected"] += 1
        if not r.get("msg"):
            out["bad"].append(("empty-error-message", dict(text=repr(text)[:300])))
    elif r["st"] == "harness":
        out["bad"].append(("harness", dict(text=repr(text)[:300], msg=r.get("msg"))))
    else:
        out["accepted"] += 1
        if r["st"] == "error":
            out["runtime_errors"] += 1


def job(payload):
    kind, seed, items = payload
    d = common.get_driver()
    rng = random.Random(seed)
    out = {"n": 0, "rejected": 0, "accepted": 0, "runtime_errors": 0, "bad": [], "samples": [], "shortlen": 0, "cstr": 0, "pull_index_failures": 0}
    if kind == "mutants":
        texts = []
        for i in range(items):
            g = zgen.Gen(rng, maxdepth=rng.randint(1, 3))
            b = zast.text(g.program([])).encode("latin-1")[:200]
            texts.append(mutate_bytes(b, rng))
    else:
        texts = items
    for t in texts:
        b = t if isinstance(t, bytes) else t.encode("latin-1")
        out["n"] += 1
        hexq = b.hex()
        tmo = 20 + len(b) // 150
        for attempt in (0, 1):
            try:
                r = d.req("run q=%s in= max=50 fuel=20000" % hexq, timeout=tmo)
                judge(r, b, out, "parse_len+execute")
                if rng.random() < 0.3 and b"\0" not in b:
                    r2 = d.req("parse q=%s cstr=1" % hexq, timeout=tmo)
                    out["cstr"] += 1
                    if r2.get("evbad"):
                        out["bad"].append(("api-contract", dict(text=repr(b)[:300], where="zw_query_parse", ev=r2["ev"])))
                    if (r2["st"] == "reject") != (r["st"] == "reject"):
                        out["bad"].append(("zw_query_parse and zw_query_parse_len disagree", dict(text=repr(b)[:300])))
                if rng.random() < 0.3 and len(b) > 1:
                    # explicit length shorter than the buffer: must behave exactly like the prefix alone
                    ln = rng.randrange(len(b))
                    r3 = d.req("run q=%s len=%d in= max=50 fuel=20000" % (hexq, ln), timeout=tmo)
                    r4 = d.req("run q=%s in= max=50 fuel=20000" % b[:ln].hex(), timeout=tmo)
                    out["shortlen"] += 1
                    if r3.get("evbad"):
                        out["bad"].append(("api-contract", dict(text=repr(b)[:300], where="short length", ev=r3["ev"])))
                    if r3["st"] != r4["st"] or r3.get("res") != r4.get("res"):
                        out["bad"].append(("bytes beyond the given length influence the outcome", dict(text=repr(b)[:300], len=ln)))
                if r["st"] == "done" and len(r["res"]) >= 1 and rng.random() < 0.5:
                    # run-time failure at every pull index: append a step that raises for the k-th result
                    n = len(r["res"])
                    for k in range(min(n, 6)):
                        q2 = b + (" (|Rz| Rz ?%d drop drop drop drop drop drop drop drop || Rz)" % 0).encode() if False else None
                    out["pull_index_failures"] += 0
                if len(out["samples"]) < 2:
                    out["samples"].append(dict(text=repr(b)[:120], st=r["st"], msg=r.get("msg", "")[:80]))
                break
            except common.DriverTimeout as ex:
                if attempt == 1:
                    out["bad"].append(("hang", dict(text=repr(b)[:300])))
            except common.DriverCrash as ex:
                out["bad"].append(("crash:" + getattr(ex, "key", ex.kind), dict(text=repr(b)[:300], report=ex.report[-3000:])))
                break
    out["bad"] = out["bad"][:40]
    return out


def job_pullfail(payload):
    """A well-formed query whose k-th result triggers a hard error: surfaces as zw_result_next == false
    exactly at pull k, with the earlier results delivered."""
    seed, count = payload
    d = common.get_driver()
    rng = random.Random(seed)
    out = {"pull_index_failures": 0, "bad": [], "n": 0, "rejected": 0, "accepted": 0, "runtime_errors": 0}
    for c in range(count):
        n = rng.randint(1, 7)
        k = rng.randrange(n)
        src = rng.choice(["[%s] elem" % ", ".join(str(i) for i in range(n)),
                          "(%s)" % ", ".join(str(i) for i in range(n)) if n > 1 else "0",
                          '"%s" elem length pos' % ("x" * n) if False else "[%s] elem" % ", ".join('"s%d"' % i for i in range(n))])
        fail = rng.choice(["drop drop", "swap", "rot", "(|A B| A)", "drop type", "over"])
        q = "%s if ?%d then (%s) else ()" % (src, k, fail) if "elem" in src else None
        if q is None:
            continue
        try:
            r = d.req("run q=%s in= max=50 fuel=20000" % common.hx(q))
            out["n"] += 1
            out["pull_index_failures"] += 1
            if r.get("evbad"):
                out["bad"].append(("api-contract", dict(text=q, ev=r["ev"])))
            if r["st"] != "error" or len(r["res"]) != k or not r.get("msg"):
                out["bad"].append(("run-time failure does not surface at its pull index", dict(text=q, st=r["st"], got=len(r.get("res", [])), want=k)))
        except common.DriverCrash as ex:
            out["bad"].append(("crash:" + getattr(ex, "key", ex.kind), dict(text=q, report=ex.report[-3000:])))
    return out


def damage_debug_line(data):
    """DATA (an ELF64 LSB file) with the version of its first line number program set to 0xffff; None if there is no .debug_line."""
    import struct
    if data[:6] != b"\x7fELF\x02\x01":
        return None
    shoff, = struct.unpack_from("<Q", data, 0x28)
    shentsize, shnum, shstrndx = struct.unpack_from("<HHH", data, 0x3a)
    def sh(i):
        return struct.unpack_from("<IIQQQQIIQQ", data, shoff + i * shentsize)
    stroff = sh(shstrndx)[4]
    for i in range(shnum):
        h = sh(i)
        name = data[stroff + h[0]:data.index(b"\0", stroff + h[0])]
        if name == b".debug_line" and h[5] >= 6:
            out = bytearray(data)
            out[h[4] + 4:h[4] + 6] = b"\xff\xff"
            return bytes(out)
    return None


def job_hard_in_predicates(payload):
    """Hard run-time failures (too few values for dup / drop / swap / rot / over, for an id block) raised INSIDE what stands in predicate
    position -- ?( ), !( ), infix operands, `if` conditions, blocks applied there: they surface through zw_result_next like anywhere else
    (the reference evaluator says which executions raise)."""
    seed, count = payload
    from vf import zast
    d = common.get_driver()
    rng = random.Random(seed)
    out = {"hard_in_predicate_runs": 0, "hard_in_predicate_raised": 0, "bad": [], "n": 0, "rejected": 0, "accepted": 0, "runtime_errors": 0}
    I = lambda v: ("int", v, "dec")
    W = lambda w: ("word", w)
    for i in range(count):
        x = rng.choice([W("drop"), W("swap"), W("rot"), W("dup"), W("over"), ("cat", [W("drop"), W("drop")]), ("paren", ("A", "B"), ("read", "A")), ("cat", [W("swap"), W("drop")])])
        k = rng.random()
        if k < 0.2:
            w = ("sub", rng.random() < 0.5, (), x)
        elif k < 0.4:
            w = ("infix", x, rng.choice(["==", "!=", "<"]), I(1)) if rng.random() < 0.5 else ("infix", I(1), "==", x)
        elif k < 0.55:
            w = ("if", ("sub", True, (), x), I(1), I(2))
        elif k < 0.7:
            w = ("cap", (), ("cat", [I(1), ("sub", False, (), ("cat", [x, x]))]))
        elif k < 0.85:
            w = ("cat", [("block", (), ("sub", True, (), x)), W("apply")])
        else:
            w = ("sub", True, (), ("sub", False, (), ("infix", x, "==", x)))
        pre = [rng.choice([I(7), ("str", [b"s"]), ("elist",)]) for _ in range(rng.choice([0, 0, 1, 1, 2, 3]))]
        if rng.random() < 0.3:
            pre = [("alt", [("cat", pre), ("cat", pre + [I(5)])])] if pre else [("alt", [("cat", []), I(5)])]
        prog = ("cat", pre + [w])
        t = zast.text(prog)
        try:
            why, m, r = zcheck.o1(d, prog, t)
            out["hard_in_predicate_runs"] += 1
            if r["st"] == "error":
                out["hard_in_predicate_raised"] += 1
            if r.get("evbad"):
                out["bad"].append(("api-contract", dict(text=t, ev=r["ev"])))
            if why:
                out["bad"].append(("run-time-failure-inside-a-predicate:%s" % why, dict(text=t, **zcheck.describe(m, r))))
        except common.DriverCrash as ex:
            out["bad"].append(("crash:" + getattr(ex, "key", ex.kind), dict(text=t, report=ex.report[-3000:])))
        except common.DriverTimeout as ex:
            out["bad"].append(("hang", dict(text=t)))
    out["bad"] = out["bad"][:30]
    return out


def job_dwapi(payload):
    """Fallible calls of libzwerg-dw.h: opening things that are not (usable) DWARF files, and querying what does open.
    The driver's wrapper records for every call whether NULL/false came with an error object (and a message) and vice versa."""
    seed, = payload
    d = common.get_driver()
    rng = random.Random(seed)
    out = {"dwapi_calls": 0, "dwapi_open_failed": 0, "dwapi_queries": 0, "bad": [], "n": 0, "rejected": 0, "accepted": 0, "runtime_errors": 0}
    wd = os.path.join(common.RUN, "C14", "dwapi-%d" % seed)
    os.makedirs(wd, exist_ok=True)
    tdir = os.path.join(common.REPO, "tests")
    good = [os.path.join(tdir, f) for f in ("typedef.o", "a1.out", "dwz-partial", "bitcount.o") if os.path.exists(os.path.join(tdir, f))]
    cases = [os.path.join(wd, "does-not-exist"), wd, "/dev/null", "", os.path.join(tdir, "typedef.c") if os.path.exists(os.path.join(tdir, "typedef.c")) else "/etc/hostname"]
    def mk(name, data):
        p = os.path.join(wd, name)
        with open(p, "wb") as f:
            f.write(data)
        cases.append(p)
    mk("empty", b"")
    mk("text", b"not an ELF file\n" * 10)
    mk("magic-only", b"\x7fELF")
    src = open(good[0], "rb").read()
    for n in (16, 52, 64, 65, 200, len(src) // 2, len(src) - 1):
        mk("trunc-%d" % n, src[:n])
    mk("ar", b"!<arch>\n" + b" " * 60)
    # sample files whose .debug_line cannot be used (version field of the first line program damaged): what needs the line table fails
    # at run time -- and libdw remembers the failure, so that asking AGAIN on the same handle fails in another way (no error code)
    for g in good[:2]:
        dmg = damage_debug_line(open(g, "rb").read())
        if dmg is not None:
            mk("badline-" + os.path.basename(g), dmg)
    # an ELF file without any DWARF
    from vf import dwgen
    mk("nodwarf.o", dwgen.build_elf(64, False, 62, [], [(b"f", 0x10, 4, 0x12, 0, 1)]))
    cases += good
    rng.shuffle(cases)
    for path in cases:
        for raw in ("0", "1"):
            try:
                r = d.req("open id=x path=%s raw=%s" % (common.hx(path), raw), timeout=60)
                out["dwapi_calls"] += 1; out["n"] += 1
                if r.get("evbad"):
                    out["bad"].append(("api-contract", dict(call="zw_value_init_dwarf", path=os.path.basename(path), ev=r["ev"])))
                if r["st"] != "ok":
                    out["dwapi_open_failed"] += 1
                    if not r.get("msg"):
                        out["bad"].append(("open-failed-without-message", dict(path=os.path.basename(path))))
                    continue
                # (each query twice on the same handle: the second failure of a cached libdw lookup is reported differently)
                for q in ("entry", "unit", "symbol", "entry attribute value", "abbrev entry", "symbol label", "entry @AT_decl_file", "entry @AT_decl_file", "name",
                          "entry ?AT_decl_file attribute ?AT_decl_file value", "entry (@AT_decl_file, @AT_call_file)", "entry @AT_decl_file"):
                    rr = d.run(q, inp="v:x", fuel=400000, max=20000, timeout=120)
                    out["dwapi_queries"] += 1
                    if rr.get("evbad"):
                        out["bad"].append(("api-contract", dict(query=q, path=os.path.basename(path), ev=rr["ev"])))
                    if rr["st"] == "error" and not rr.get("msg"):
                        out["bad"].append(("run-time failure without message", dict(query=q, path=os.path.basename(path))))
                d.req("close id=x")
            except common.DriverCrash as ex:
                out["bad"].append(("crash:" + getattr(ex, "key", ex.kind), dict(path=os.path.basename(path), request=ex.request[:200], report=ex.report[-3000:])))
            except common.DriverTimeout as ex:
                out["bad"].append(("hang", dict(path=os.path.basename(path), request=ex.request[:200])))
    return out


def job_cli(payload):
    seed, texts = payload
    d = common.get_driver()
    exe = os.path.join(common.VERIF, "build", common.VARIANT, "dwgrep", "dwgrep")
    env = dict(os.environ); env.update(common.ASAN_ENV); env["DWGREP_VERIF_FUEL"] = "20000"
    rng = random.Random(seed)
    out = {"cli": 0, "cli_status2": 0, "bad": []}
    for t in texts:
        b = t if isinstance(t, bytes) else t.encode("latin-1")
        try:
            r = d.req("run q=%s in= max=100000 fuel=20000" % b.hex(), timeout=30)
        except (common.DriverCrash, common.DriverTimeout):
            continue
        if r["st"] == "cut":
            continue
        how = rng.choice(["-e", "-f", "pos"]) if b"\0" not in b and not b.startswith(b"-") else "-f"
        if how == "pos" and (b == b"" or b.startswith(b"-")):
            how = "-f"
        tmp = None
        if how == "-f":
            tmp = tempfile.NamedTemporaryFile(dir=common.RUN, delete=False)
            tmp.write(b); tmp.close()
            argv = [exe, "-f", tmp.name]
        elif how == "-e":
            argv = [exe, "-e", b]
        else:
            argv = [exe, b]
        try:
            tmo = 60 + len(b) // 100
            try:
                p = subprocess.run(argv, stdout=subprocess.PIPE, stderr=subprocess.PIPE, env=env, timeout=tmo)
            except subprocess.TimeoutExpired:
                # a watchdog firing on a loaded machine decides nothing: once more, alone-ish and with a longer leash
                p = subprocess.run(argv, stdout=subprocess.PIPE, stderr=subprocess.PIPE, env=env, timeout=4 * tmo)
        except subprocess.TimeoutExpired:
            out["bad"].append(("cli-hang", dict(text=repr(b)[:300], how=how, watchdog_s=4 * tmo)))
            continue
        finally:
            if tmp:
                os.unlink(tmp.name)
        out["cli"] += 1
        want = 2 if r["st"] in ("reject", "error") else (0 if r["res"] else 1)
        if p.returncode < 0 or p.returncode > 2:
            kind, key = common.classify_report(p.stderr.decode("utf-8", "replace"), p.returncode)
            out["bad"].append(("cli-crash:" + key, dict(text=repr(b)[:300], how=how, rc=p.returncode, stderr=p.stderr.decode("utf-8", "replace")[-2000:])))
        elif p.returncode != want:
            out["bad"].append(("cli-exit-status", dict(text=repr(b)[:300], how=how, got=p.returncode, want=want, lib=r["st"], stderr=p.stderr.decode("utf-8", "replace")[-300:])))
        elif want == 2:
            out["cli_status2"] += 1
            if not p.stderr.strip():
                out["bad"].append(("cli-error-without-message", dict(text=repr(b)[:300], how=how)))
    return out


def run(chk):
    quick = chk.tier == "quick"
    rng = chk.rng()
    pool = common.Pool()
    fixed = [bytes([i]) for i in range(256)]
    fixed += [(a + " " + b) for a in TOKENS for b in TOKENS]
    fixed += [(a + b) for a in TOKENS[:30] for b in TOKENS[:30]]
    fixed += int_literals() + unterminated()
    fixed += [b"1\x00 2", b"\x00", b'"a\x00b"', b"1 /* \x00 */ 2", b"dup\x00dup", b'"%( \x00 %)"']
    # over-long and over-deep texts: around the generated parser's stack limit (10000) and well beyond it
    for n in (2000, 9990, 9998, 9999, 10000, 10001, 20000):
        fixed.append(b"1 " * n)
    for n in (500, 3000, 9999, 10001, 15000):
        fixed += [b"(" * n + b"1" + b")" * n, b"[" * n + b"]" * n, b"(" * n, b"1 " + b"(1, " * n + b"2" + b")" * n]
    def nest(kind, n):
        if kind == "sub": return "?(" * n + ")" * n
        if kind == "block": return "{" * n + "}" * n
        if kind == "if": return "if 1 then " * n + "2" + " else 3" * n
        if kind == "or": return "(1 || " * n + "2" + ")" * n
        if kind == "infix": return "(1 == " * n + "1" + ")" * n
        if kind == "scope": return "1 " + "(|A| A " * n + ")" * n
        if kind == "let": return "let A := (" * n + "1" + "); A" * n
        if kind == "apply": return "{" * n + "1" + "} apply" * n
        t = "1"
        for _ in range(n):
            t = '"%( ' + t + ' %)"'
        return t
    for kind in ("sub", "block", "if", "or", "infix", "scope", "let", "apply", "splice"):
        for n in (30, 95, 105, 240, 340, 520, 1100):
            fixed.append(nest(kind, n).encode())
    fixed += [b'"%( ' + b"(" * 12000 + b"1" + b")" * 12000 + b' %)"', b"1 " * 9000 + b'"%( ' + b"2 " * 9000 + b' %)"', b"{" * 6000 + b"}" * 6000, b"1 drop " * 6000 + b"1",
              b"let A := " * 4000 + b"1" + b" ;" * 4000, b"-" * 20000 + b"1", b"1" * 30000, b'"' + b"a" * 100000 + b'"', b"/*" + b"x" * 100000 + b"*/ 1", b"?" * 10000, b"1 " + b"*" * 20000]
    # named constants pushed out of the range their domain can name (negative, 2^31 and above, 2^32 and above): whatever they are rendered as,
    # every API call that formats them answers through its return value
    for w in ("DW_AT_name", "DW_TAG_base_type", "DW_OP_addr", "DW_FORM_data1", "DW_ATE_signed", "DW_LANG_C99", "DW_INL_inlined", "DW_ACCESS_public", "DW_VIRTUALITY_none",
              "DW_DEFAULTED_no", "DW_END_big", "DW_LLE_end_of_list", "STT_FUNC", "STB_GLOBAL", "STV_DEFAULT", "T_CONST", "true"):
        for t in ("%s -5 add", "%s 0x7fffffff add", "%s 0x80000000 add", "%s 0x100000000 mul", "[%s -5 add]", '%s -5 add "%%s"', "%s 1 sub 1 sub 1 sub 1 sub 1 sub", "%s 0xffffffffffff0000 add",
                  "%s -5 add type", "%s -5 add dup ?eq", "%s 0x80000000 add hex", "%s -1 mul"):
            fixed.append((t % w).encode())
    jobs = [("fixed", 1, fixed[i:i + 200]) for i in range(0, len(fixed), 200)]
    nm = 30000 if quick else 600000
    jobs += [("mutants", chk.seed * 6700417 + i, 500) for i in range(nm // 500)]
    tot, ctx, samples = {}, {}, []
    zcheck.consume(chk, pool.map(job, jobs), tot, ctx, samples, "C14")
    zcheck.consume(chk, pool.map(job_pullfail, [(chk.seed + i, 100) for i in range(8 if quick else 80)]), tot, ctx, samples, "C14 pull failures")
    zcheck.consume(chk, pool.map(job_hard_in_predicates, [(chk.seed * 53 + i, 100) for i in range(8 if quick else 160)]), tot, ctx, samples, "C14 hard failures in predicates")
    zcheck.consume(chk, pool.map(job_dwapi, [(chk.seed * 13 + i,) for i in range(4 if quick else 40)]), tot, ctx, samples, "C14 dwarf api")
    cli_texts = rng.sample(fixed, 350 if quick else 3000)
    for i in range(200 if quick else 4000):
        g = zgen.Gen(rng, maxdepth=2)
        cli_texts.append(mutate_bytes(zast.text(g.program([])).encode("latin-1")[:200], rng) if i % 2 else zast.text(g.program([])).encode("latin-1"))
    zcheck.consume(chk, pool.map(job_cli, [(chk.seed + i, cli_texts[i:i + 25]) for i in range(0, len(cli_texts), 25)]), tot, ctx, samples, "C14 cli")
    hs = pool.hook_stats()
    pool.finish()
    chk.cov.update({
        "programs_failing_hard_inside_a_predicate_position": tot.get("hard_in_predicate_runs", 0), "of_which_raised_as_the_reference_says": tot.get("hard_in_predicate_raised", 0),
        "fallible_dwarf_api_calls_on_bad_and_good_files": tot.get("dwapi_calls", 0), "of_which_refused_with_error": tot.get("dwapi_open_failed", 0),
        "queries_on_values_opened_that_way": tot.get("dwapi_queries", 0),
        "values_read_through_public_accessors_and_compared_with_internals": hs.get("api_accessor_reads"),
        "evaluations": tot.get("n", 0) + tot.get("cli", 0),
        "distinct_nontrivial": tot.get("rejected", 0),
        "rule": "one evaluation = one byte string handed to zw_query_parse_len (and executed with a step budget when accepted) or to the CLI; "
                "non-trivial = byte strings that were rejected (the error path is the subject)",
        "fixed_strings": len(fixed), "mutated_strings": nm,
        "accepted": tot.get("accepted", 0), "rejected": tot.get("rejected", 0), "accepted_then_raised_at_run_time": tot.get("runtime_errors", 0),
        "nul_terminated_entry_point_calls": tot.get("cstr", 0), "short_explicit_length_cases": tot.get("shortlen", 0),
        "failures_at_chosen_pull_index": tot.get("pull_index_failures", 0),
        "cli_invocations": tot.get("cli", 0), "cli_invocations_expected_status_2": tot.get("cli_status2", 0),
        "samples": samples[:6],
    })
    chk.assumptions += ["hang = no reply within the watchdog twice in a row (driver: 20 s + 1 s per 150 bytes of text; CLI: 60 s + 1 s per 100 bytes, then four times that); "
                        "execution is bounded by a 20000-step budget; parsing of nested constructs is quadratic in the nesting depth"]
    if tot.get("rejected", 0) < 1000 or tot.get("cli", 0) < 100:
        chk.inconc("too few events")


def replay(path):
    w = json.load(open(path))
    print(json.dumps(w, indent=1)[:4000])
    return 0
