"""C09 -- comparison is one consistent total order; equality respects constant domains.

Monitor: algebraic laws evaluated on the FULL relation matrices recorded from the engine:
for a pool of n values every comparison word and alias (and the infix forms) is executed on
every ordered pair [a b] (zwdrv cmpmat); then, in Python: trichotomy within a type,
reflexivity/symmetry/transitivity of ==, transitivity/antisymmetry of <, a<b <=> b>a, all
aliases cell by cell, cross-type consistency (a total preorder by type, no diagnostics),
value-based comparison of arithmetic domains, named constants of unrelated domains never
equal, strings bytewise, sequences by length then element-wise.  Transitivity is checked
over all triples with bitset rows."""
import json, os, random, itertools
from vf import common, zcheck

WORDS = ["?eq", "!eq", "?ne", "!ne", "?lt", "!lt", "?gt", "!gt", "?le", "!le", "?ge", "!ge"]
INFIX = {"==": "?eq", "!=": "?ne", "<": "?lt", ">": "?gt", "<=": "?le", ">=": "?ge"}
# infix forms with one operand left out (it is the value on top of the stack): `A (< B)` and `B (A < )` both say A < B
HALF_INFIX = {"<": "?lt", ">=": "?ge"}
HALF_FORMS = ["?(|A B| A (%s B))", "?(|A B| B (A %s ))"]
ALIASES = [("!lt", "?ge"), ("!gt", "?le"), ("!eq", "?ne"), ("!ne", "?eq"), ("!ge", "?lt"), ("!le", "?gt")]


def q(s):
    return "q:" + common.hx(s)


def pool_core(rng, n_extra):
    P = []
    vals = [0, 1, 2, 3, 13, -1, -2, (1 << 63) - 1, 1 << 63, (1 << 64) - 1, -(1 << 63)]
    for v in vals:
        for dom in ("dec", "hex", "oct", "bin"):
            if rng.random() < 0.6 or v in (1, 3, 13):
                P.append((("i:%d:%s:0" % (v, dom)) if v < (1 << 63) else ("u:%d:%s:0" % (v, dom)), "int"))
    P += [("u:0:bool:0", "bool"), ("u:1:bool:0", "bool"), ("u:3:bool:0", "bool")]
    P += [(q(w), "named") for w in ("T_CONST", "T_STR", "T_SEQ", "DW_TAG_array_type", "DW_AT_sibling", "DW_FORM_addr", "DW_LANG_C89", "DW_ATE_address",
                                     "DW_OP_addr", "DW_AT_name", "DW_TAG_entry_point", "DW_FORM_block2", "DW_ACCESS_public", "DW_VIS_local", "DW_INL_inlined",
                                     "DW_TAG_compile_unit", "DW_AT_producer", "DW_DEFAULTED_no", "true", "false")]
    # ELF symbol domains of two machines: machine-specific vs common codes (EM_ARM = 40, EM_SPARC = 2, EM_NONE = 0)
    for m in (40, 2, 0, 8):
        for v in (2, 13, 10, 1):
            P.append(("u:%d:stt.%d:0" % (v, m), "named"))
        P.append(("u:1:stb.%d:0" % m, "named"))
        P.append(("u:13:stb.%d:0" % m, "named"))
    P += [(q("[10, 20, 30] elem ?1 pos"), "int"), (q("1 10 aset low"), "int"), (q("3 10 aset low"), "int")]
    for b in (b"", b"a", b"ab", b"a\x00", b"a\x00b", b"b", b"aa", b"\xff", b"\x7f", b"A", b"a ", b"abc",
              b"a\x00c", b"a\x00bd", b"\x00", b"\x00\x00", b"\x00a", b"\x00b", b"a\x00\x00b", b"a\x00\x00a", b"\xff\x00\x01", b"\xff\x00\x02"):
        P.append(("s:%s:0" % b.hex(), "str"))
    for s in ("[]", "[1]", "[2]", "[1, 2]", "[2, 1]", "[1, 2, 3]", "[0x1]", '["a"]', '["b"]', "[[1]]", "[[]]", '[1, "a"]', '["a", 1]', "[[1], [2]]", "[[2], [1]]",
              "[true]", "[DW_AT_name]", "[3]", '[""]', "[[], []]",
              '["a\\x00b"]', '["a\\x00c"]', '[1, "\\x00a"]', '[1, "\\x00b"]'):
        P.append((q(s), "seq"))
    for s in ("0 0 aset", "1 5 aset", "1 6 aset", "1 5 aset 7 9 aset add", "2 5 aset", "1 5 aset 6 9 aset add", "7 9 aset 1 5 aset add",
              # sets far apart and long ones: differences of starts / lengths at and beyond 2^63
              "0 0x10 aset", "0x400000 0x400010 aset", "0x8000000000000000 0x8000000000000010 aset", "0xffffffff80000000 0xffffffff80000010 aset",
              "0x7fffffffffffffff 0x8000000000000001 aset", "1 0x8000000000000002 aset", "0 0xfffffffffffffffe aset", "0 0x10 aset 0xffffffffffffff00 0xfffffffffffffff0 aset add",
              "0 0x8000000000000000 aset", "0 0x8000000000000001 aset"):
        P.append((q(s), "aset"))
    P.append((q("{1}"), "closure"))
    # closures that captured values (their copies hold copies of those), alone and inside sequences
    P += [(q("let A := 1; {A}"), "closure"), (q('let A := [1, 2]; let B := "x"; {A B}'), "closure"), (q("[(1, 2) (|A| {A})] elem ?1"), "closure"),
          (q("[let A := 1; {A}]"), "seq"), (q('[(1, "a") (|A| {A 1 add})]'), "seq")]
    # seeded extras (thorough): random integers in random domains, random strings and nested sequences
    for _ in range(n_extra):
        k = rng.random()
        if k < 0.4:
            v = rng.choice([rng.getrandbits(rng.randint(1, 63)), -rng.getrandbits(rng.randint(1, 62)), rng.randint(-3, 3)])
            P.append(("i:%d:%s:%d" % (v, rng.choice(["dec", "hex", "oct", "bin"]), rng.randint(0, 3)), "int"))
        elif k < 0.7:
            b = bytes(rng.choice(b"ab\x00\xff ") for _ in range(rng.randint(0, 4)))
            P.append(("s:%s:0" % b.hex(), "str"))
        else:
            items = [rng.choice(["1", "2", "0x1", '"a"', '"b"', "[]", "[1]", "true", "DW_AT_name"]) for _ in range(rng.randint(0, 3))]
            P.append((q("[" + ", ".join(items) + "]"), "seq"))
    return P


OPENS = {"dz": "dwz-partial", "nt": "nontrivial-types.o", "a1": "a1.out", "dz2": "dwz-partial", "dz21": "dwz-partial2-1", "dz31": "dwz-partial3-1",
         "ya": "y.o", "ym": "y-mips.o"}


DISTINCT = []


def pool_dwarf():
    """DWARF values; all values of one file come from ONE Dwarf handle (values of different handles
    are unrelated, which 'dz2' -- the same file opened again -- also exercises)."""
    P = []
    d = "v:dz"
    for off in (0x14, 0x17):
        for k in range(3):
            P.append(("%s,%s" % (d, q("[entry (offset == 0x%x)] elem ?%d" % (off, k))), "die"))
        P.append(("%s,%s" % (d, q("raw entry (offset == 0x%x)" % off)), "die"))
        P.append(("%s,%s" % (d, q("raw entry (offset == 0x%x) cooked" % off)), "die"))
    P.append(("%s,%s" % (d, q("entry (offset == 0x34)")), "die"))
    P.append(("%s,%s" % (d, q("raw entry (offset == 0x34)")), "die"))
    P.append(("%s,%s" % ("v:dz2", q("entry (offset == 0x34)")), "die"))
    P.append(("%s,%s" % (d, q("[unit] elem ?0")), "cu"))
    P.append(("%s,%s" % (d, q("[unit] elem ?1")), "cu"))
    P.append(("%s,%s" % (d, q("[raw unit] elem ?0")), "cu"))
    P.append(("%s,%s" % (d, q("[raw unit] elem ?1")), "cu"))
    P.append((d, "dwarf")); P.append((d + "," + q("raw"), "dwarf")); P.append(("v:dz2", "dwarf"))
    # one and the same unit root, reached as the end of the parent chain of DIEs that came in through DIFFERENT imports
    for h in ("v:dz21", "v:dz31"):
        for k in range(5):
            P.append(("%s,%s" % (h, q("[entry ?(parent) parent* ?root] elem ?%d" % (k * 7))), "die"))
        P.append(("%s,%s" % (h, q("[unit root] elem ?0")), "die"))
        P.append(("%s,%s" % (h, q("[entry ?(parent) parent] relem ?0")), "die"))
        # ... and as the `parent` of DIEs that sit at the top of imported partial units (the step that leaves the import)
        for k in range(6):
            P.append(("%s,%s" % (h, q("[entry ?(raw parent ?TAG_partial_unit) parent] elem ?%d" % (k * 3))), "die"))
        P.append(("%s,%s" % (h, q("[entry ?(raw parent ?TAG_partial_unit) parent] relem ?0")), "die"))
        P.append(("%s,%s" % (h, q("[entry ?(raw parent ?TAG_partial_unit) parent parent* ?root] relem ?1")), "die"))
    # DIEs that came in through two and three nested imports (unit -> partial unit -> partial unit of the supplementary file): every
    # one of them against its own copy and against the others
    def count(h, enum):
        dd = common.Driver()
        try:
            rc = dd.run("[%s] length" % enum, inp="d:" + common.hx(os.path.join(common.REPO, "tests", OPENS[h[2:]])), fuel=0, max=3, timeout=120)
            return int(rc["res"][0][-1]["v"]) if rc["st"] == "done" and rc["res"] else 0
        finally:
            dd.kill()
    for h in ("v:dz21", "v:dz31"):
        n = count(h, "entry")
        for k in range(1, n, max(1, n // 10)):
            P.append(("%s,%s" % (h, q("[entry] elem ?%d" % k)), "die"))
    # symbols of two files (of different machines) in one relation
    for h in ("v:ya", "v:ym"):
        n = count(h, "symbol")
        for k in [k for k in (1, 3, 5, 8) if k < n]:
            P.append(("%s,%s" % (h, q("[symbol] elem ?%d" % k)), "sym"))
    # values that are DIFFERENT by construction: the k-th and the l-th thing one enumeration yields (units of the main and of the
    # supplementary file of a1.out -- both have a unit at offset 0 --, DIEs, symbols): no two of one group may compare equal
    for h, enum, ty, ks in (("v:a1", "raw unit", "cu", range(6)), ("v:a1", "unit", "cu", range(3)), ("v:dz21", "raw unit", "cu", range(6)),
                            ("v:a1", "raw entry", "die", range(0, 40, 5)), ("v:a1", "symbol", "sym", range(0, 30, 6)), ("v:dz", "raw unit", "cu", range(4))):
        grp = []
        fpath = os.path.join(common.REPO, "tests", OPENS[h[2:]])
        dd = common.Driver()
        try:
            rc = dd.run("[%s] length" % enum, inp="d:" + common.hx(fpath), fuel=0, max=3, timeout=120)
            have = int(rc["res"][0][-1]["v"]) if rc["st"] == "done" and rc["res"] else 0
        finally:
            dd.kill()
        for k in ks:
            if k >= have:
                continue
            sp = "%s,%s" % (h, q("[%s] elem ?%d" % (enum, k)))
            P.append((sp, ty)); grp.append(sp)
        DISTINCT.append(grp)
    d2 = "v:nt"
    P.append((d2, "dwarf"))
    for k in range(3):
        P.append(("%s,%s" % (d2, q("[entry attribute] elem ?%d" % k)), "attr"))
    P.append(("%s,%s" % (d2, q("[raw entry attribute] elem ?1")), "attr"))
    P.append(("%s,%s" % (d2, q("[entry ?TAG_subprogram] elem ?0")), "die"))
    P.append(("%s,%s" % (d2, q("[entry abbrev] elem ?1")), "abbrev"))
    P.append(("%s,%s" % (d2, q("[entry abbrev] elem ?2")), "abbrev"))
    P.append(("%s,%s" % (d2, q("[entry abbrev attribute] elem ?2")), "abbrev_attr"))
    P.append(("%s,%s" % (d2, q("[entry abbrev attribute] elem ?3")), "abbrev_attr"))
    P.append(("%s,%s" % (d2, q("abbrev")), "abbrev_unit"))
    d3 = "v:a1"
    for k in (0, 1, 5):
        P.append(("%s,%s" % (d3, q("[symbol] elem ?%d" % k)), "sym"))
    t = os.path.join(common.REPO, "tests")
    bc = "d:" + common.hx(os.path.join(t, "bitcount.o"))
    for k in range(2):
        P.append(("%s,%s" % (bc, q("[entry @AT_location] elem ?%d" % k)), "lle"))
    for k in range(4):
        P.append(("%s,%s" % (bc, q("[entry @AT_location elem] elem ?%d" % k)), "llo"))
    return P


def job(payload):
    pool_spec, words, row0, row1 = payload
    d = common.get_driver()
    for oid, f in OPENS.items():
        ro = d.req("open id=%s path=%s" % (oid, common.hx(os.path.join(common.REPO, "tests", f))))
        if ro["st"] != "ok":
            return {"harness_error": "cannot open %s: %s" % (f, ro.get("msg"))}
    r = d.req("cmpmat pool=%s words=%s row0=%d row1=%d" % (";".join(pool_spec), ";".join(common.hx(w) for w in words), row0, row1), timeout=600)
    return {"r": r, "row0": row0, "row1": row1}


def typeof(v):
    return v["t"] + (":" + v["d"] if False else "")


def pool_families():
    """Up to three constants with the numbers 0..3 from EVERY family of named constants the vocabulary offers (DW_TAG_, DW_DSC_, DW_ORD_, ...):
    equal numbers in unrelated families must never be equal."""
    d = common.Driver()
    try:
        voc = d.req("voc")["words"]
        fams = {}
        for w in voc:
            m = __import__("re").match(r"^(DW_[A-Z]+_|ST[TBV]_|T_)", w)
            if m and not w.endswith(("_lo_user", "_hi_user")):
                fams.setdefault(m.group(1), []).append(w)
        P = []
        for f, ws in sorted(fams.items()):
            got = {}
            for w in ws[:60]:
                r = d.run(w + " value")
                if r["st"] == "done" and len(r["res"]) == 1 and r["res"][0][0]["t"] == "c":
                    n = int(r["res"][0][0]["v"])
                    if 0 <= n <= 3 and n not in got:
                        got[n] = w
                if len(got) == 4:
                    break
            P += [(q(w), "named") for n, w in sorted(got.items())][:3]
        return P
    finally:
        d.kill()


def run(chk):
    quick = chk.tier == "quick"
    rng = chk.rng()
    P = pool_core(rng, 0 if quick else 110) + pool_families() + pool_dwarf()
    specs = [p[0] for p in P]
    n = len(specs)
    words = WORDS + ["?(|A B| (A %s B))" % op for op in INFIX] + [f % op for op in HALF_INFIX for f in HALF_FORMS]
    pool = common.Pool()
    # ONE process computes the whole matrix: the order of unrelated values (different Dwarf handles,
    # different constant domains) is by object address, consistent only within a process.
    step = n
    mats = {w: [None] * n for w in words}
    vals = None
    diag = 0
    for res in pool.map(job, [(specs, words, i, min(n, i + step)) for i in range(0, n, step)]):
        if "crash" in res:
            chk.crash_violation(res, "cmpmat"); continue
        if "timeout" in res or "harness_error" in res:
            chk.inconc(str(res)[:400]); continue
        r = res["r"]
        if r["st"] != "ok":
            chk.inconc("cmpmat: %s" % r.get("msg")); continue
        vals = r["pool"]
        if r["stderr"]:
            diag += r["stderr"].count("\n")
            chk.violation("diagnostic-during-comparison", {"stderr": r["stderr"][:500]})
        if r["evbad"]:
            chk.violation("api-contract", {"ev": r["ev"][:5]})
        for w in words:
            m = r["mat"][w]
            k = 0
            for i in range(res["row0"], res["row1"]):
                mats[w][i] = m[k * n:(k + 1) * n]
                k += 1
    pool.finish()
    if vals is None or any(row is None for w in words for row in mats[w]):
        chk.inconc("matrix incomplete")
        return
    types = [v["t"] for v in vals]

    def desc(i):
        return "#%d %s %s" % (i, types[i], vals[i]["sh"][:40])

    def bad(key, **kw):
        chk.violation(key, kw)

    cells = 0
    # every cell is '0' or '1'
    for w in words:
        for i in range(n):
            for j in range(n):
                c = mats[w][i][j]
                cells += 1
                if c not in "01":
                    bad("comparison-%s:%s" % ({"x": "changes-stack", "e": "raises"}.get(c, c), w), a=desc(i), b=desc(j))
    eq, lt, gt = mats["?eq"], mats["?lt"], mats["?gt"]
    B = lambda m, i, j: m[i][j] == "1"
    # aliases and infix forms, cell by cell
    for a, b in ALIASES:
        for i in range(n):
            if mats[a][i] != mats[b][i]:
                j = [k for k in range(n) if mats[a][i][k] != mats[b][i][k]][0]
                bad("alias-disagrees:%s/%s" % (a, b), a=desc(i), b=desc(j))
    for op, w in INFIX.items():
        iw = "?(|A B| (A %s B))" % op
        for i in range(n):
            if types[i] == "f":
                continue
            for j in range(n):
                if types[j] != "f" and mats[iw][i][j] != mats[w][i][j]:
                    bad("infix-disagrees:%s/%s" % (op, w), a=desc(i), b=desc(j)); break
    for op, w in HALF_INFIX.items():
        for f in HALF_FORMS:
            iw = f % op
            for i in range(n):
                if types[i] == "f":
                    continue
                for j in range(n):
                    if types[j] != "f" and mats[iw][i][j] != mats[w][i][j]:
                        bad("infix-with-an-operand-left-out-disagrees:%s/%s" % (iw, w), a=desc(i), b=desc(j)); break
    for w, inv in (("?eq", "!eq"), ("?lt", "!lt"), ("?gt", "!gt")):
        for i in range(n):
            for j in range(n):
                if mats[w][i][j] == mats[inv][i][j]:
                    bad("flavours-not-complementary:%s" % w, a=desc(i), b=desc(j)); break
    # le / ge definitions
    for i in range(n):
        for j in range(n):
            if B(mats["?le"], i, j) != (B(lt, i, j) or B(eq, i, j)) and types[i] == types[j] and types[i] != "f":
                bad("le-is-not-lt-or-eq", a=desc(i), b=desc(j)); break
    # "a value always equals its own copy": cell (i, i) compares two copies of pool value i -- every type, the hidden closure type included
    for i in range(n):
        if not B(eq, i, i) or B(lt, i, i) or B(gt, i, i):
            bad("value-not-equal-to-its-own-copy:%s" % types[i], a=desc(i), spec=specs[i], eq=B(eq, i, i), lt=B(lt, i, i), gt=B(gt, i, i))
    triples = 0
    groups = {}
    for i, t in enumerate(types):
        groups.setdefault(t, []).append(i)
    for t, idx in groups.items():
        if t == "f":
            continue
        for i in idx:
            if not B(eq, i, i):
                bad("eq-not-reflexive:%s" % t, a=desc(i))
            for j in idx:
                s = B(lt, i, j) + B(eq, i, j) + B(gt, i, j)
                if s != 1:
                    bad("trichotomy:%s" % t, a=desc(i), b=desc(j), lt=B(lt, i, j), eq=B(eq, i, j), gt=B(gt, i, j))
                if B(eq, i, j) != B(eq, j, i):
                    bad("eq-not-symmetric:%s" % t, a=desc(i), b=desc(j))
                if B(lt, i, j) != B(gt, j, i):
                    bad("lt-gt-not-converse:%s" % t, a=desc(i), b=desc(j))
                if B(lt, i, j) and B(lt, j, i):
                    bad("lt-not-antisymmetric:%s" % t, a=desc(i), b=desc(j))
        # transitivity over all triples, with bitsets
        for name, m in (("eq", eq), ("lt", lt)):
            rows = {i: sum(1 << j for j in idx if B(m, i, j)) for i in idx}
            for i in idx:
                for j in idx:
                    if B(m, i, j):
                        triples += len(idx)
                        miss = rows[j] & ~rows[i]
                        if miss:
                            k = miss.bit_length() - 1
                            key = "%s-not-transitive:%s" % (name, t)
                            if t == "die" and name == "eq":
                                key += ":" + die_pattern(vals[i], vals[j], vals[k])
                            bad(key, a=desc(i), b=desc(j), c=desc(k), pool=[specs[i], specs[j], specs[k]])
        # lt and eq must be compatible: a==b and b<c => a<c
        rows_lt = {i: sum(1 << j for j in idx if B(lt, i, j)) for i in idx}
        for i in idx:
            for j in idx:
                if B(eq, i, j) and rows_lt[i] != rows_lt[j] and not (t == "die"):
                    bad("eq-not-a-congruence-for-lt:%s" % t, a=desc(i), b=desc(j))
    # across types: a total preorder by type, no equality
    tl = sorted(groups)
    for s in tl:
        for t in tl:
            if s >= t:
                continue
            dirs = set()
            for i in groups[s]:
                for j in groups[t]:
                    if B(eq, i, j):
                        bad("values-of-different-types-equal", a=desc(i), b=desc(j))
                    dirs.add((B(lt, i, j), B(gt, i, j), B(gt, j, i), B(lt, j, i)))
            if len(dirs) != 1 or list(dirs)[0] not in ((True, False, True, False), (False, True, False, True)):
                bad("cross-type-order-inconsistent:%s/%s" % (s, t), dirs=sorted(dirs))
    # integers of arithmetic domains by value; unrelated named constants never equal
    ints = [i for i in groups.get("c", []) if vals[i]["ar"]]
    for i in ints:
        for j in ints:
            vi, vj = int(vals[i]["v"]), int(vals[j]["v"])
            if B(lt, i, j) != (vi < vj) or B(eq, i, j) != (vi == vj):
                bad("arithmetic-domains-not-by-value", a=desc(i), b=desc(j))
    named = [i for i in groups.get("c", []) if not vals[i]["ar"]]
    for i in named:
        for j in groups.get("c", []):
            if i != j and B(eq, i, j):
                di, dj = vals[i]["d"], vals[j]["d"]
                same_family = di == dj or (di.startswith("ST") and dj.startswith("ST") and di[:3] == dj[:3])
                if not same_family or vals[i]["v"] != vals[j]["v"]:
                    bad("named-constants-of-unrelated-domains-equal", a=desc(i), b=desc(j), da=di, db=dj)
                elif vals[i]["f"] != vals[j]["f"]:
                    bad("equal-constants-render-differently", a=desc(i), b=desc(j), fa=vals[i]["f"], fb=vals[j]["f"])
    # values that are different by construction
    index = {sp: i for i, sp in enumerate(specs)}
    for grp in DISTINCT:
        ids = [index[sp] for sp in grp if sp in index]
        for a in ids:
            for b in ids:
                if a < b and (B(eq, a, b) or B(eq, b, a)):
                    bad("distinct-values-of-one-enumeration-compare-equal:%s" % types[a], a=desc(a), b=desc(b), specs=[specs[a], specs[b]])
    # the same by the WORDS the constants were written with (not by the domain the engine reports for them): two words of different
    # families (DW_DSC_label, DW_ORD_row_major) never denote equal constants
    import re as _re
    def wordfam(i):
        sp = specs[i]
        if not sp.startswith("q:"):
            return None
        try:
            w = bytes.fromhex(sp[2:]).decode("latin-1")
        except ValueError:
            return None
        m = _re.fullmatch(r"(DW_[A-Z]+_|ST[TBV]_|T_)[A-Za-z0-9_]+", w)
        return m.group(1) if m else None
    wf = {i: wordfam(i) for i in groups.get("c", [])}
    for i in groups.get("c", []):
        for j in groups.get("c", []):
            if i < j and wf[i] and wf[j] and wf[i] != wf[j] and (B(eq, i, j) or B(eq, j, i)):
                bad("constants-written-with-words-of-different-families-equal", a=desc(i), b=desc(j), words=[specs[i], specs[j]], families=[wf[i], wf[j]])
    # ELF: a machine-specific code never equals the same number of another machine, common codes do
    stt = [i for i in named if vals[i]["d"] == "STT_"]
    for i in stt:
        for j in stt:
            if vals[i]["v"] == vals[j]["v"] and vals[i]["f"] != vals[j]["f"] and B(eq, i, j):
                bad("machine-specific-codes-of-different-machines-equal", a=desc(i), b=desc(j))
            if vals[i]["v"] == vals[j]["v"] and int(vals[i]["v"]) < 10 and not B(eq, i, j):
                bad("common-ELF-codes-of-different-machines-unequal", a=desc(i), b=desc(j))
    # strings bytewise
    for i in groups.get("s", []):
        for j in groups.get("s", []):
            a, b = bytes.fromhex(vals[i]["v"]), bytes.fromhex(vals[j]["v"])
            if B(lt, i, j) != (a < b) or B(eq, i, j) != (a == b):
                bad("strings-not-bytewise", a=desc(i), b=desc(j))
    # sequences: by length first
    for i in groups.get("q", []):
        for j in groups.get("q", []):
            la, lb = len(vals[i]["v"]), len(vals[j]["v"])
            if la != lb and B(lt, i, j) != (la < lb):
                bad("sequences-not-by-length-first", a=desc(i), b=desc(j))
    # ... then element-wise: for equally long flat sequences whose elements are pairwise of the same type (strings / arithmetic integers)
    def flat(v):
        out = []
        for e in v["v"]:
            if e["t"] == "s":
                out.append(("s", bytes.fromhex(e["v"])))
            elif e["t"] == "c" and e.get("ar"):
                out.append(("c", int(e["v"])))
            else:
                return None
        return out
    for i in groups.get("q", []):
        for j in groups.get("q", []):
            a, b = flat(vals[i]), flat(vals[j])
            if a is None or b is None or len(a) != len(b) or [x[0] for x in a] != [x[0] for x in b]:
                continue
            if B(lt, i, j) != (a < b) or B(eq, i, j) != (a == b):
                bad("sequences-not-element-wise", a=desc(i), b=desc(j))
    # address sets: equal iff same ranges
    for i in groups.get("as", []):
        for j in groups.get("as", []):
            if B(eq, i, j) != (vals[i]["r"] == vals[j]["r"]):
                bad("address-sets-equality", a=desc(i), b=desc(j))
    chk.cov.update({
        "evaluations": cells,
        "distinct_nontrivial": n * n,
        "rule": "one evaluation = one cell of one relation matrix (word or infix form executed on one ordered pair); distinct_nontrivial = ordered pairs of pool values",
        "pool_size": n, "pool_by_type": {t: len(v) for t, v in groups.items()}, "relations": words,
        "triples_checked_for_transitivity": triples,
        "exhaustive": True, "exhaustive_scope": "all ordered pairs and all triples of THIS pool",
        "samples": [dict(spec=specs[i][:80], shows=vals[i]["sh"][:40]) for i in (0, 5, n // 3, n // 2, n - 8, n - 1)],
    })
    if n < 100:
        chk.inconc("pool too small")


def die_pattern(a, b, c):
    """a==b, b==c, a!=c among T_DIE: is the middle one a raw / route-less 'template' of the same DIE reached by two different import routes?"""
    try:
        same = a["o"] == b["o"] == c["o"] and a["tag"] != 0x11      # (a DW_TAG_compile_unit DIE lies in no partial unit: it has no routes)
        template = b["raw"] or not b["imp"]
        routed = (not a["raw"]) and (not c["raw"]) and a["imp"] and c["imp"] and a["imp"] != c["imp"]
        if same and template and routed:
            return "template-between-two-routes"
    except Exception:
        pass
    return "other"


def replay(path):
    w = json.load(open(path))
    print(json.dumps(w, indent=1)[:4000])
    return 0
