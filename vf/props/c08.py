"""C08 -- integer arithmetic exact over [-2^63, 2^64-1] or an error.

Monitor: an exact big-integer oracle (Python ints) over events recorded from
(i) direct calls into the repository's int.cc (intdrv) on the full lattice^2 in
both internal representations plus seeded random pairs, and (ii) `A B op`
queries and literals through the library (zwdrv) in every arithmetic domain.
UBSan/ASan watch every one of those executions."""
import os, subprocess, sys, random, itertools
from vf import common
from vf.lattice import lattice, reps, decode, LO, HI

OPS = ["+", "-", "*", "/", "%", "neg"]


def exact(op, a, b):
    if op == "+": return a + b
    if op == "-": return a - b
    if op == "*": return a * b
    if op == "/": return None if b == 0 else a // b
    if op == "%": return None if b == 0 else a % b
    if op == "neg": return -a


def job_direct(payload):
    """payload: list of ((sa,ua,a),(sb,ub,b)).  Runs intdrv, checks with the oracle."""
    exe = os.path.join(common.VERIF, "build", common.VARIANT, "drv", "intdrv")
    env = dict(os.environ); env.update(common.ASAN_ENV)
    inp = "".join("%s %x %s %x\n" % (sa, ua, sb, ub) for (sa, ua, a), (sb, ub, b) in payload)
    p = subprocess.run([exe], input=inp.encode(), stdout=subprocess.PIPE, stderr=subprocess.PIPE, env=env, timeout=600)
    bad = []
    if p.returncode != 0:
        kind, key = common.classify_report(p.stderr.decode("utf-8", "replace"), p.returncode)
        return {"crash": {"kind": kind, "key": key, "report": p.stderr.decode("utf-8", "replace")[-4000:],
                          "request": "intdrv batch of %d starting %r" % (len(payload), payload[0])}}
    lines = p.stdout.decode().split("\n")
    n = 0
    errs = 0
    for ((sa, ua, a), (sb, ub, b)), line in zip(payload, lines):
        toks = line.split()
        if len(toks) != 7:
            bad.append(("harness", "short line", line)); continue
        for op, tok in zip(OPS, toks[:6]):
            if op == "neg" and sa == "s" and a >= 0:
                # Unary minus is internal: the library only ever negates an unsigned magnitude (literal
                # sign) or a negative signed value.  A signed non-negative operand is unreachable from the
                # API, so no verdict is taken on it (see DESIGN.md, C08).
                continue
            n += 1
            ex = exact(op, a, b)
            want_err = ex is None or not (LO <= ex <= HI)
            if tok == "E":
                errs += 1
                if not want_err:
                    bad.append((op, "spurious error", dict(a=a, ra=sa, b=b, rb=sb, exact=ex)))
            else:
                v, printed = decode(tok)
                if want_err:
                    bad.append((op, "value instead of error", dict(a=a, ra=sa, b=b, rb=sb, got=v, exact=ex)))
                elif v != ex:
                    bad.append((op, "wrong value", dict(a=a, ra=sa, b=b, rb=sb, got=v, exact=ex)))
                elif printed != str(ex):
                    bad.append((op, "wrong rendering", dict(a=a, ra=sa, b=b, rb=sb, got=printed, exact=ex)))
        cmpbits = toks[6]
        want = "".join("1" if x else "0" for x in (a < b, a > b, a <= b, a >= b, a == b, a != b))
        n += 6
        if cmpbits != want:
            bad.append(("cmp", "comparison disagrees with mathematical order", dict(a=a, ra=sa, b=b, rb=sb, got=cmpbits, want=want)))
    return {"n": n, "errs": errs, "bad": dedup(bad), "nbad": len(bad)}


RADIX = {"dec": ("", "%d"), "hex": ("0x", "%x"), "oct": ("0o", "%o"), "bin": ("0b", "%b")}


def lit(v, dom):
    pfx = RADIX[dom][0]
    s = {"dec": "%d", "hex": "%x", "oct": "%o", "bin": "{:b}"}[dom]
    body = (s % abs(v)) if dom != "bin" else s.format(abs(v))
    return ("-" if v < 0 else "") + pfx + body


WORDS = {"add": "+", "sub": "-", "mul": "*", "div": "/", "mod": "%"}


def job_query(payload):
    """payload: list of (a, doma, b, domb, word, via) -- via 'lit' or 'api'."""
    d = common.get_driver()
    bad = []
    n = 0
    diag = 0
    for a, da, b, db, word, via in payload:
        if via == "lit":
            r = d.run("%s %s %s" % (lit(a, da), lit(b, db), word))
        else:
            ia = ("i:%d:%s:0" % (a, da)) if a < 0 or (a < (1 << 63) and (a ^ b) & 1) else ("u:%d:%s:0" % (a, da))
            ib = ("i:%d:%s:0" % (b, db)) if b < 0 else ("u:%d:%s:0" % (b, db))
            r = d.run(word, inp=ia + "," + ib)
        n += 1
        ex = exact(WORDS[word], a, b)
        want_err = ex is None or not (LO <= ex <= HI)
        w = dict(a=a, da=da, b=b, db=db, word=word, via=via)
        if r["st"] != "done":
            bad.append((word, "unexpected status " + r["st"], dict(w, msg=r.get("msg")))); continue
        if r["evbad"]:
            bad.append((word, "API contract", dict(w, ev=r["ev"])))
        if want_err:
            if r["res"]:
                bad.append((word, "value instead of error", dict(w, got=r["res"][0][-1]["v"], exact=ex)))
            elif not r["stderr"]:
                bad.append((word, "no diagnostic for an arithmetic error", w))
            else:
                diag += 1
        else:
            if len(r["res"]) != 1:
                bad.append((word, "spurious error" if not r["res"] else "several results", dict(w, exact=ex, stderr=r["stderr"]))); continue
            stk = r["res"][0]
            if len(stk) != 1 or stk[0]["t"] != "c":
                bad.append((word, "wrong result shape", dict(w, got=stk))); continue
            c = stk[0]
            if int(c["v"]) != ex:
                bad.append((word, "wrong value", dict(w, got=c["v"], exact=ex)))
            if not c["ar"]:
                bad.append((word, "result not in an arithmetic domain", dict(w, dom=c["d"])))
            if r["stderr"]:
                bad.append((word, "diagnostic although a value was yielded", dict(w, stderr=r["stderr"])))
    return {"n": n, "diag": diag, "bad": dedup(bad), "nbad": len(bad)}


def job_literal(payload):
    """payload: list of literal texts with expected value or None (reject)."""
    d = common.get_driver()
    bad = []
    n = 0
    for text, want in payload:
        r = d.run(text)
        n += 1
        if want is None:
            if r["st"] != "reject":
                bad.append(("literal", "out-of-range or malformed literal accepted", dict(text=text, st=r["st"], res=r.get("res"))))
        else:
            if r["st"] != "done" or len(r["res"]) != 1 or len(r["res"][0]) != 1:
                bad.append(("literal", "valid literal not evaluated", dict(text=text, st=r["st"], msg=r.get("msg")))); continue
            c = r["res"][0][0]
            if c["t"] != "c" or int(c["v"]) != want[0]:
                bad.append(("literal", "literal has the wrong value", dict(text=text, got=c.get("v"), want=want[0])))
            elif c["d"] != want[1]:
                bad.append(("literal", "literal has the wrong domain", dict(text=text, got=c["d"], want=want[1])))
            elif canon(want[0], want[1]) is not None and c["f"] != canon(want[0], want[1]):
                bad.append(("literal", "literal renders wrongly", dict(text=text, got=c["f"], want=canon(want[0], want[1]))))
    return {"n": n, "bad": bad[:50], "nbad": len(bad)}


def canon(v, dom):
    if dom == "dec":
        return str(v)
    if v == 0:
        return None  # rendering of zero in radix domains is C20's business
    pfx = {"hex": "0x", "oct": "0", "bin": "0b"}[dom]
    body = {"hex": "%x", "oct": "%o"}.get(dom, "")
    body = (body % abs(v)) if dom != "bin" else "{:b}".format(abs(v))
    return ("-" if v < 0 else "") + pfx + body


def dedup(bad):
    """At most 3 witnesses per key from one batch, so that rare keys are not crowded out."""
    seen = {}
    out = []
    for op, what, w in bad:
        k = keyof(op, what, w) if op != "harness" else "harness"
        seen[k] = seen.get(k, 0) + 1
        if seen[k] <= 3:
            out.append((op, what, w))
    return out


def run(chk):
    quick = chk.tier == "quick"
    rng = chk.rng()
    L = lattice()
    items = [(s, u, v) for v in L for (s, u) in reps(v)]
    pairs = [(x, y) for x in items for y in items]
    nlat = len(pairs)
    # random 64-bit pairs in random representations
    nrand = 300000 if quick else 20000000
    def rnd():
        k = rng.random()
        if k < 0.3:
            v = rng.getrandbits(64)
        elif k < 0.6:
            v = rng.getrandbits(rng.randint(1, 64))
        elif k < 0.8:
            v = -rng.getrandbits(rng.randint(1, 63))
        else:
            v = rng.choice(L) + rng.randint(-5, 5)
        v = max(LO, min(HI, v))
        s, u = rng.choice(reps(v))
        return (s, u, v)
    pool = common.Pool()
    B = 20000
    batches = [pairs[i:i + B] for i in range(0, len(pairs), B)]
    tot = {"n": 0, "errs": 0}
    distinct = set()

    def consume(results, label):
        for res in results:
            if "crash" in res:
                chk.crash_violation(res, label); continue
            if "timeout" in res or "harness_error" in res:
                chk.inconc("%s: %s" % (label, res)); continue
            tot["n"] += res["n"]
            tot["errs"] += res.get("errs", 0) + res.get("diag", 0)
            for op, what, w in res["bad"]:
                if op == "harness":
                    chk.inconc(str(w)); continue
                chk.violation(keyof(op, what, w), {"op": op, "what": what, "case": w, "via": label})
            if res["nbad"] > len(res["bad"]):
                chk._nviol += res["nbad"] - len(res["bad"])
                chk.keyhist["(further cases of the keys above)"] = chk.keyhist.get("(further cases of the keys above)", 0) + res["nbad"] - len(res["bad"])

    consume(pool.map(job_direct, batches), "direct")
    rb = []
    for i in range(0, nrand, B):
        rb.append([(rnd(), rnd()) for _ in range(min(B, nrand - i))])
    consume(pool.map(job_direct, rb), "direct-random")

    # through the language: sampled lattice pairs, every domain pair, literals and API-built operands
    doms = ["dec", "hex", "oct", "bin"]
    nq = 12000 if quick else 400000
    qs = []
    for _ in range(nq):
        a, b = rng.choice(L), rng.choice(L)
        if rng.random() < 0.2:
            a, b = rnd()[2], rnd()[2]
        qs.append((a, rng.choice(doms), b, rng.choice(doms), rng.choice(list(WORDS)), rng.choice(["lit", "api"])))
    # the exact corner cases always
    for a in (LO, LO + 1, -1, 0, 1, (1 << 63) - 1, 1 << 63, HI - 1, HI):
        for b in (LO, -2, -1, 0, 1, 2, (1 << 63) - 1, 1 << 63, HI):
            for w in WORDS:
                qs.append((a, "dec", b, "hex", w, "lit"))
    QB = 400
    consume(pool.map(job_query, [qs[i:i + QB] for i in range(0, len(qs), QB)]), "query")

    lits = []
    for v in L:
        for dom in doms:
            lits.append((lit(v, dom), (v, dom)))
    for v in (HI + 1, HI + 2, LO - 1, LO - 2, 1 << 65, -(1 << 64), 10**20, -10**20, 1 << 64):
        for dom in doms:
            lits.append((lit(v, dom), None))
    for v in L[::7]:
        if v >= 0:
            lits.append(("0%o" % v if v else "00", (v, "oct")))
            lits.append(("0X%X" % v, (v, "hex")))
            lits.append(("0B{:b}".format(v), (v, "bin")))
            lits.append(("0O%o" % v, (v, "oct")))
    for bad_lit in ("0x", "0b", "0o", "-0x", "0b2", "0o8", "09", "0xg", "12a", "1_", "0x_1", "-0b", "1e5"):
        lits.append((bad_lit, None))
    consume(pool.map(job_literal, [lits[i:i + QB] for i in range(0, len(lits), QB)]), "literal")
    hs = pool.hook_stats()
    pool.finish()

    nd = len(pairs) + sum(len(b) for b in rb) + len(set(qs)) + len(lits)
    chk.cov.update({
        "evaluations": tot["n"],
        "distinct_nontrivial": nd,
        "rule": "one evaluation = one operator/comparison applied to one operand pair; distinct_nontrivial counts distinct "
                "(operand pair, representation pair) cases of the lattice cross product (exhaustive), seeded random pairs, "
                "distinct query cases and literal texts; all are non-trivial in that the oracle computes an exact expected value or expected error",
        "exhaustive": False,
        "lattice_values": len(L), "lattice_items_with_both_representations": len(items),
        "lattice_pairs_exhaustive": nlat, "random_pairs": nrand, "query_cases": len(qs), "literal_cases": len(lits),
        "expected_and_observed_errors": tot["errs"],
        "hook_counters": {k: hs.get(k) for k in ("scon_con", "scon_des", "scon_get", "stack_checks")},
        "samples": [dict(a=pairs[i][0][2], ra=pairs[i][0][0], b=pairs[i][1][2], rb=pairs[i][1][0]) for i in (0, nlat // 3, nlat // 2, nlat - 1)]
                   + [dict(query=qs[0]), dict(literal=lits[5][0])],
        "sanitizers": "ASan+UBSan, reports fatal",
    })
    chk.assumptions += ["Python integers are exact", "floor division and remainder with the divisor's sign as in the property statement (Python // and %)"]
    if tot["n"] < 1000000:
        chk.inconc("too few evaluations: %d" % tot["n"])


def keyof(op, what, w):
    def cls(v):
        if v == LO: return "MIN"
        if v == HI: return "UMAX"
        if v < 0: return "neg"
        if v == 0: return "0"
        return "big" if v > (1 << 63) - 1 else "pos"
    if "a" in w and "b" in w:
        return "%s:%s:%s%s,%s%s" % (op, what, cls(w["a"]), w.get("ra", ""), cls(w["b"]), w.get("rb", ""))
    return "%s:%s:%s" % (op, what, w.get("text", ""))


def replay(path):
    import json
    w = json.load(open(path))["witness"]
    print(json.dumps(w, indent=1))
    c = w["case"]
    if w.get("via", "").startswith("direct"):
        a = [r for r in reps(c["a"]) if r[0] == c["ra"]][0]
        b = [r for r in reps(c["b"]) if r[0] == c["rb"]][0]
        res = job_direct([((a[0], a[1], c["a"]), (b[0], b[1], c["b"]))])
        print(res)
        return 1 if res.get("nbad") else 0
    return 0
