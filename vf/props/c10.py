"""C10 -- `*`/`+`: each reachable stack exactly once per input; termination.

Monitors: O1 reachability (vf/zmodel.py BFS over ==-classes) vs the engine's result
multiset; O2 relations on the engine alone (E+ = distinct(E E*), E? = (E,),
per-input clean slate, suffix collapsing, no ==-equal stack twice); termination
restated as bounded progress: closures over finite graphs must finish within a
fuel budget counted in logical steps (hook H2), never wall-clock.
DWARF graphs: child*, parent*, @AT_type* ... on every DIE of the sample files."""
import json, os, random, glob
from vf import common, zast, zgen, zmodel as M, zcmp, zcheck

FUEL = 3000000      # two orders of magnitude above what the unchanged tree needs for these graphs
MAXRES = 20000


def I(v):
    return ("int", v, "dec")


def W(w):
    return ("word", w)


def lt(b):
    return ("infix", ("cat", []), "<", I(b))


def graph_body(rng, n):
    """TOS = node index in 0..n-1; yields the successors listed in a random table."""
    tab = []
    succs = []
    for i in range(n):
        k = rng.choice([0, 1, 1, 1, 2, 2, 3])
        ss = [rng.randrange(n) for _ in range(k)]
        if rng.random() < 0.15:
            ss.append(i)             # self loop
        succs.append(ss)
        tab.append(("cap", (), ("alt", [I(s) for s in ss]) if len(ss) > 1 else I(ss[0])) if ss else ("elist",))
    table = ("cap", (), ("alt", tab)) if n > 1 else ("cap", (), tab[0])
    return ("paren", ("X",), ("cat", [table, W("elem"), ("infix", W("pos"), "==", ("read", "X")), W("elem")])), succs


def arith_body(rng, depth=2):
    k = rng.random()
    B = rng.randint(3, 12)
    if k < 0.2:
        return ("cat", [I(rng.randint(1, 3)), W("add"), I(rng.randint(2, 7)), W("mod")])
    if k < 0.35:
        return ("cat", [W("dup"), W("mul"), I(rng.randint(2, 9)), W("mod")])
    if k < 0.55:
        return ("cat", [("alt", [("cat", [I(1), W("add")]), ("cat", [I(2), W("add")])]), lt(B)])
    if k < 0.7:
        return ("cat", [("or", [("cat", [("infix", ("cat", []), "==", I(3)), I(0), W("mul")]), ("cat", [I(1), W("add")])]), lt(B)])
    if k < 0.8:
        return ("cat", [("paren", ("Xa",), ("cat", [("let", ("Ya",), ("cat", [("read", "Xa"), I(1), W("add")])), ("read", "Ya")])), lt(B)])
    if k < 0.9 and depth > 0:
        inner = ("close", rng.choice("*+"), ("paren", (), ("cat", [arith_body(rng, depth - 1), lt(rng.randint(3, 6))])))
        return ("cat", [inner, I(rng.randint(1, 2)), W(rng.choice(["mul", "add"])), lt(B)])
    return ("cat", [("if", ("infix", ("cat", [I(2), W("mod")]), "==", I(0)), ("cat", [I(3), W("add")]), ("cat", [I(1), W("sub")])), lt(B),
                    ("infix", ("cat", []), ">=", I(0))])


def pair_body(rng):
    """Two-slot state (a b) -> (b a+b) bounded."""
    B = rng.randint(8, 40)
    return ("paren", ("Pa", "Pb"), ("cat", [("read", "Pb"), ("read", "Pa"), ("read", "Pb"), W("add"), lt(B)]))


def mixed_body(rng):
    """Reachable set with values of DIFFERENT types in the same slot (const / seq / str), revisited along several paths."""
    B = rng.randint(3, 6)
    is_const = ("infix", W("type"), "==", W("T_CONST"))
    wrap = ("paren", ("Mx",), ("cap", (), ("read", "Mx")))
    tostr = ("str", [("dir", "s")])
    inc = ("cat", [I(1), W("add"), lt(B)])
    k = rng.random()
    if k < 0.4:
        # n -> [n] -> n+1 -> [n+1] ...
        return ("if", is_const, wrap, ("cat", [W("elem"), inc]))
    if k < 0.8:
        # n -> [n], "n", n+1 ; [n] -> n ; "n" -> its length
        other = ("if", ("infix", W("type"), "==", W("T_SEQ")), W("elem"), W("length"))
        return ("if", is_const, ("alt", [wrap, tostr, inc]), other)
    # n -> "n" and [n] ; both lead back to n+1 (diamond through two types)
    other = ("if", ("infix", W("type"), "==", W("T_SEQ")), ("cat", [W("elem"), inc]), ("cat", [W("length"), inc]))
    return ("if", is_const, ("alt", [wrap, tostr]), other)


def make_case(rng):
    """(body, list of start stacks as AST value lists, description)"""
    k = rng.random()
    if k < 0.15:
        body = ("paren", (), mixed_body(rng))
        starts = [[I(rng.randint(0, 2))] for _ in range(rng.randint(1, 3))]
        kind = "mixed"
        if rng.random() < 0.4:
            junk = [("str", [b"junk"])]
            starts = [junk + s for s in starts]
        return body, starts, kind
    if k < 0.45:
        n = rng.randint(1, 6)
        body, succs = graph_body(rng, n)
        starts = [[I(rng.randrange(n))] for _ in range(rng.randint(1, 4))]
        kind = "graph%d" % n
    elif k < 0.85:
        body = ("paren", (), arith_body(rng))
        starts = [[I(rng.randint(0, 4))] for _ in range(rng.randint(1, 4))]
        kind = "arith"
    else:
        body = pair_body(rng)
        starts = [[I(rng.randint(0, 2)), I(rng.randint(1, 3))] for _ in range(rng.randint(1, 3))]
        kind = "pair"
    # junk below the closure's working slots
    if rng.random() < 0.4:
        junk = [("str", [b"junk"])] if rng.random() < 0.5 else [I(7), ("str", [b"x"])]
        starts = [junk + s for s in starts]
    # a body with an EMPTY alternative (X? or (X,)): every round also hands back the stack it was given
    if rng.random() < 0.15:
        body = ("close", "?", body) if rng.random() < 0.5 else ("paren", (), ("alt", [body, ("cat", [])]))
        kind += "-optional"
    return body, starts, kind


def keys(r):
    return sorted(zcheck.eng_key(s) for s in zcheck.eng_results(r))


def job(payload):
    seed, count = payload
    d = common.get_driver()
    rng = random.Random(seed)
    out = {"n": 0, "o1": 0, "o1_skipped": 0, "rel": 0, "cyclic": 0, "maxfuel": 0, "bad": [], "samples": [], "nontrivial": 0, "ctx": {}}

    def run(node):
        t = zast.text(node)
        r = d.run(t, fuel=FUEL, max=MAXRES)
        if r["fuel"] > out["maxfuel"]:
            out["maxfuel"] = r["fuel"]
        return t, r

    for i in range(count):
        body, starts, kind = make_case(rng)
        ck = rng.choice("*+")
        out["n"] += 1
        bad = []
        try:
            G = ("alt", [("cat", list(s)) for s in starts]) if len(starts) > 1 else ("cat", list(starts[0]))
            prog = ("cat", [G, ("close", ck, body)])
            zcheck.tally_ctx(out, prog)
            t, r = run(prog)
            if len(out["samples"]) < 2:
                out["samples"].append(t)
            if r["st"] == "error" and "fuel" in r["msg"]:
                bad.append(("non-termination:fuel-exhausted-on-a-finite-graph", dict(text=t, fuel=FUEL)))
            elif r["st"] == "cut":
                bad.append(("non-termination:more-results-than-reachable-stacks", dict(text=t)))
            elif r["st"] != "done":
                bad.append(("unexpected-status", dict(text=t, st=r["st"], msg=r.get("msg"))))
            else:
                zcheck.basic_events(r, t, bad)
                # the closure followed by something that begins with a digit, a bracket or a quote, written with and without a blank
                # between the suffix and what follows: `E+ 1` and `E+1` are the same two tokens
                tail = rng.choice([[I(1), W("add")], [("paren", (), ("cat", [I(1), W("add")]))], [("cap", (), W("dup"))], [("str", [b"%s"])], [I(0), W("drop")]])
                prog2 = ("cat", [G, ("close", ck, body)] + tail)
                ta = zast.text(prog2)
                tb = zast.text(prog2, zast.Style(random.Random(rng.getrandbits(32)), tight=True))
                if ta != tb:
                    w = zcheck.same_outcome(d.run(ta, fuel=FUEL, max=MAXRES), d.run(tb, fuel=FUEL, max=MAXRES))
                    out["tight"] = out.get("tight", 0) + 1
                    if w:
                        bad.append(("layout:closure-suffix-written-without-blank:" + w, dict(a=ta, b=tb)))
                # O1
                m = M.run(prog, budget=400000)
                if m["status"] in ("indeterminate", "budget"):
                    out["o1_skipped"] += 1
                else:
                    out["o1"] += 1
                    why = zcheck.compare_model(m, r)
                    if why:
                        bad.append(("O1:" + why, dict(text=t, **zcheck.describe(m, r))))
                    if len(m["results"]) > len(starts) + 1:
                        out["nontrivial"] += 1
                # per-input clean slate + no ==-equal stack twice per input
                whole = keys(r)
                parts = []
                for s in starts:
                    t1, r1 = run(("cat", list(s) + [("close", ck, body)]))
                    k1 = keys(r1)
                    if len(set(k1)) != len(k1):
                        bad.append(("O2:a-stack-yielded-twice-for-one-input", dict(text=t1)))
                    parts += k1
                    # E+ = distinct (E E*)
                    t2, r2 = run(("cat", list(s) + [body, ("close", "*", body)]))
                    t3, r3 = run(("cat", list(s) + [("close", "+", body)]))
                    if r2["st"] == "done":
                        # E E* itself: every result of E is a fresh input of E*, so stacks reachable from several of them come out several times
                        m2 = M.run(("cat", list(s) + [body, ("close", "*", body)]), budget=400000)
                        if m2["status"] not in ("indeterminate", "budget"):
                            out["rel"] += 1
                            why2 = zcheck.compare_model(m2, r2)
                            if why2:
                                bad.append(("O1:E E*:" + why2, dict(text=t2, **zcheck.describe(m2, r2))))
                    if r2["st"] == "done" and r3["st"] == "done":
                        out["rel"] += 1
                        if sorted(set(keys(r2))) != keys(r3):
                            bad.append(("O2:E+ != distinct(E E*)", dict(plus=t3, seq=t2)))
                        if len(keys(r2)) != len(set(keys(r2))):
                            out["cyclic"] += 1
                    # a body that reads a name bound OUTSIDE the closure, reached twice with equal start stacks but different bindings
                    if i % 3 == 1:
                        a1, a2, mm = rng.randint(1, 3), rng.randint(1, 3), rng.randint(3, 7)
                        inner = ("paren", (), ("cat", [("read", "Ao"), W("add"), I(mm), W("mod")]))
                        p6 = ("cat", [("alt", [I(a1), I(a2), I(a1)]), ("paren", ("Ao",), ("cat", [I(0), ("close", ck, inner)]))])
                        t6, r6 = run(p6)
                        m6 = M.run(p6, budget=400000)
                        out["rel"] += 1
                        if r6["st"] == "done" and m6["status"] not in ("indeterminate", "budget"):
                            why = zcheck.compare_model(m6, r6)
                            if why:
                                bad.append(("O1:body reads an outer binding:" + why, dict(text=t6, **zcheck.describe(m6, r6))))
                    # two closures in a row: the second starts from a clean slate for every stack the first yields (X* X* is not X*)
                    if i % 3 == 0:
                        for k1, k2 in (("*", "*"), ("*", "+"), ("+", "*")):
                            p5 = ("cat", list(s) + [("close", k1, body), ("close", k2, body)])
                            t5, r5 = run(p5)
                            m5 = M.run(p5, budget=400000)
                            out["rel"] += 1
                            if r5["st"] == "done" and m5["status"] not in ("indeterminate", "budget"):
                                why = zcheck.compare_model(m5, r5)
                                if why:
                                    bad.append(("O1:two closures in a row:" + why, dict(text=t5, **zcheck.describe(m5, r5))))
                    # suffix collapsing
                    for a, b in (("**", "*"), ("+*", "*"), ("*+", "*"), ("++", "+")):
                        ta = zast.text(("cat", list(s))) + " " + " ".join(zast.stmt(body)) + " " + " ".join(a)
                        tb = zast.text(("cat", list(s))) + " " + " ".join(zast.stmt(body)) + " " + " ".join(b)
                        ra, rb = d.run(ta, fuel=FUEL, max=MAXRES), d.run(tb, fuel=FUEL, max=MAXRES)
                        out["rel"] += 1
                        w = zcheck.same_outcome(ra, rb)
                        if w:
                            bad.append(("O2:suffix-collapse %s vs %s: %s" % (a, b, w), dict(a=ta, b=tb)))
                    # E? = (E,)  -- for E the body, and for E a closure itself (X*?, X+?)
                    for E in (body, ("close", "*", body), ("close", "+", body)):
                        tq = zast.text(("cat", list(s) + [("close", "?", E)]))
                        te = zast.text(("cat", list(s) + [("paren", (), ("alt", [E, ("cat", [])]))]))
                        w = zcheck.same_outcome(d.run(tq, fuel=FUEL, max=MAXRES), d.run(te, fuel=FUEL, max=MAXRES))
                        out["rel"] += 1
                        if w:
                            bad.append(("O2:E? vs (E,): " + w, dict(a=tq, b=te)))
                if sorted(parts) != whole:
                    bad.append(("O2:per-input-clean-slate", dict(text=t, whole=len(whole), parts=len(parts))))
                # closure VALUES that captured values, lying below the slots the body works on: every stack the closure
                # operator sees carries copies of them; the reachable set and termination must not change
                if i % 4 == 0:
                    pfx, mult = rng.choice([('let Ca := 1; let Cb := "x"; {Ca} {Ca Cb}', 1), ("let Ca := [1, [2]]; {Ca}", 1), ("(1, 1) (|Ca| {Ca})", 2),
                                            ("[let Ca := 1; {Ca}]", 1), ("(1, 2) (|Ca| {Ca 1 add}) 7", 2)])
                    tc = pfx + " " + t
                    rc = d.run(tc, fuel=FUEL * 2, max=MAXRES * 2)
                    out["rel"] += 1
                    out["closure_underlay"] = out.get("closure_underlay", 0) + 1
                    if rc["st"] == "error" and "fuel" in rc["msg"] or rc["st"] == "cut":
                        bad.append(("non-termination:closure-values-below-the-working-slots", dict(text=tc)))
                    elif rc["st"] != "done" or len(rc["res"]) != mult * len(whole):
                        bad.append(("O2:closure-values-below-change-the-reachable-set", dict(text=tc, want=mult * len(whole), got=len(rc.get("res", [])), st=rc["st"])))
        except common.DriverCrash as ex:
            bad.append(("crash:" + getattr(ex, "key", ex.kind), dict(text=zast.text(body), report=ex.report[-3000:])))
        except common.DriverTimeout as ex:
            bad.append(("hang", dict(text=zast.text(body), request=ex.request[:1000])))
        out["bad"] += bad[:4]
    out["bad"] = out["bad"][:40]
    return out


DW_CLOSURES = ["child", "parent", "@AT_type", "?TAG_typedef @AT_type", "@AT_sibling", "child ?TAG_formal_parameter", "root", "(child, parent)"]


def job_dwarf(payload):
    path, raw = payload
    d = common.get_driver()
    out = {"n": 0, "dies": 0, "rel": 0, "bad": [], "samples": []}
    inp = ("r:" if raw else "d:") + common.hx(path)
    tag = os.path.basename(path) + (":raw" if raw else "")

    def q(t, fuel=FUEL * 5):
        return d.run(t, inp=inp, fuel=fuel, max=2000000, timeout=300)
    try:
        probe = q("[entry] length")
        if probe["st"] == "error" and "No DWARF" in probe.get("msg", ""):
            return out      # an ELF file of tests/ without debug information: nothing to close over
        for e in DW_CLOSURES:
            out["n"] += 1
            # every DIE as start; result identity = (start DIE, reached DIE)
            r = q("entry (|S| S [S (%s)*] [S (%s)+] [S (%s) (%s)*])" % (e, e, e, e))
            if r["st"] != "done":
                out["bad"].append(("dwarf-closure-status", dict(file=tag, E=e, st=r["st"], msg=r.get("msg")))); continue
            for s in zcheck.eng_results_any(r):
                out["dies"] += 1
                start, star, plus, seq = s[-4], s[-3][1], s[-2][1], s[-1][1]
                ks = [zcmp.strip(x) for x in star]
                if len(set(map(repr, ks))) != len(ks):
                    out["bad"].append(("dwarf:a-DIE-yielded-twice-by-E*", dict(file=tag, E=e, start=repr(start)[:200]))); break
                kp = sorted(repr(zcmp.strip(x)) for x in plus)
                kq = sorted(set(repr(zcmp.strip(x)) for x in seq))
                out["rel"] += 1
                if kp != kq:
                    out["bad"].append(("dwarf:E+ != distinct(E E*)", dict(file=tag, E=e, start=repr(start)[:200], plus=len(kp), seq=len(kq)))); break
                if repr(zcmp.strip(start)) not in [repr(k) for k in ks]:
                    out["bad"].append(("dwarf:E* does not yield its input", dict(file=tag, E=e, start=repr(start)[:200]))); break
        # subtree size via child* equals the size computed by explicit recursion over [child]
        r = q("entry [child*] length")
        r2 = q("entry [child] length")
        r3 = q("entry ?root dup child* ?eq")
        r4 = q("entry ?root")
        if r3["st"] == "done" and r4["st"] == "done":
            out["rel"] += 1
            if len(r3["res"]) != len(r4["res"]):
                out["bad"].append(("dwarf:seen-set-not-cleared-per-input", dict(file=tag, roots=len(r4["res"]), matches=len(r3["res"]))))
        if not out["samples"]:
            out["samples"].append("%s: entry (|S| S [S (child)*] ...)" % tag)
    except common.DriverCrash as ex:
        out["bad"].append(("crash:" + getattr(ex, "key", ex.kind), dict(file=tag, report=ex.report[-3000:])))
    except common.DriverTimeout as ex:
        out["bad"].append(("hang", dict(file=tag, request=ex.request[:500])))
    return out


def run(chk):
    quick = chk.tier == "quick"
    pool = common.Pool()
    tot, ctx, samples = {}, {}, []
    n = 2400 if quick else 80000
    per = 50
    zcheck.consume(chk, pool.map(job, [(chk.seed * 15485863 + i, per) for i in range(n // per)]), tot, ctx, samples, "C10 core")
    # the random generator's closures, via the model (nested in every context)
    from vf.props import c01
    tdir = os.path.join(common.REPO, "tests")
    names = ["typedef.o", "nontrivial-types.o", "dwz-partial", "enum.o", "bitcount.o", "char_16_32.o", "dwz-partial2-1", "a1.out"]
    files = [os.path.join(tdir, f) for f in names if os.path.exists(os.path.join(tdir, f))]
    if not quick:
        files = sorted(set(files + [p for p in glob.glob(os.path.join(tdir, "*")) if os.path.isfile(p) and open(p, "rb").read(4) == b"\x7fELF"]))
    t2, s2 = {}, []
    zcheck.consume(chk, pool.map(job_dwarf, [(f, raw) for f in files for raw in (False, True)]), t2, ctx, s2, "C10 dwarf")
    hs = pool.hook_stats()
    pool.finish()
    chk.cov.update({
        "evaluations": tot.get("n", 0) + t2.get("dies", 0),
        "distinct_nontrivial": tot.get("nontrivial", 0),
        "rule": "one evaluation = one (closure body, set of start stacks) case run through O1 and all O2 relations, or one (DWARF closure, start DIE); "
                "non-trivial = reachable set larger than the start stacks",
        "O1_model_comparisons": tot.get("o1", 0), "O1_skipped": tot.get("o1_skipped", 0),
        "O2_relations_checked": tot.get("rel", 0) + t2.get("rel", 0),
        "closures_followed_by_a_digit_bracket_or_quote_with_and_without_blank": tot.get("tight", 0),
        "cases_where_E_E*_had_duplicates_ie_cycles_or_diamonds": tot.get("cyclic", 0),
        "cases_rerun_over_closure_values_with_captured_environment": tot.get("closure_underlay", 0),
        "max_fuel_used_by_any_run": tot.get("maxfuel", 0), "fuel_budget": FUEL,
        "dwarf_files": [os.path.basename(f) for f in files], "dwarf_start_DIEs_x_closures": t2.get("dies", 0),
        "fuel_exhausted_events": hs.get("fuel_exhausted"),
        "nesting_matrix": {k: ctx[k] for k in sorted(ctx)},
        "samples": samples[:5] + s2[:2],
    })
    chk.assumptions += ["termination is decided as bounded progress: finite-graph closures must finish within %d logical steps (scon::get calls)" % FUEL,
                        "results are compared modulo the representative of an ==-class (positions may differ between members)"]
    if tot.get("o1", 0) < 500 or tot.get("rel", 0) < 1000:
        chk.inconc("too few events")


def replay(path):
    w = json.load(open(path))
    print(json.dumps(w, indent=1)[:3000])
    return 0
