"""C12 -- a compiled query is a pure function of its input stack.

Monitor: purity over API histories.  A history is a sequence of
parse / execute / pull-one / destroy-result / destroy-query operations on up to three
queries and up to three simultaneously live result sets in ONE long-lived process; the
recorded outcome of every pull must equal, position by position, the result sequence a
FRESH process produces for a fresh parse-and-run of the same text on the same input, and
the input stack must be unchanged.  Interleavings of pulls/destroys of two and three
results are enumerated (all of them up to a bound in thorough, sampled in quick);
compile histories parse several texts in random order first."""
import itertools, json, os, random
from vf import common, zast, zgen, zmodel as M, zcmp, zcheck

# programs working on ONE value (a DIE, a unit, an attribute) that the input stacks of many executions share
VAL_PROGS = ["address", "low", "high", "root", "parent", "parent*", "child", "unit", "root parent", "dup root drop parent", "attribute", "@AT_name", "offset", "label", '"%s"', "root offset",
             "parent parent", "(|D| D root D parent)", "child parent", "unit root", "name", "?root", "abbrev code", "raw parent", "cooked root", '(|D| D root "%s" D "%s")']
DW_PROGS = ["entry address", "entry ?TAG_base_type address", "unit", "abbrev", "entry ?root", "unit root ?root offset", "entry parent* ?root offset", 'unit "%s"', '(|Dw| (10, 11, 12) "<%s>")', 'entry ?TAG_subprogram "%s"',
            '(|Dw| Dw unit "%s" 16 "%s|%s")', '(|Dw| [Dw entry offset] "%s")', '(|Dw| Dw entry ?root "%( offset %)/%s")', "entry parent", "entry (offset == 0x1d) parent*", "unit root child", "entry abbrev", "abbrev entry",
            "entry ?(child) [child offset]", "entry @AT_name", "entry attribute value", "[entry offset] length", "symbol name",
            "entry (|D| D child ?(parent == D))", "entry root", "entry @AT_type*", "entry ?TAG_subprogram child ?root"]
INPUTS = ["", "i:3:dec:0", "i:3:dec:0,s:6162:1", "s:61:0,u:7:hex:2,i:-1:dec:0"]
SYNTAX_STATE = ["7 `[]", "1 2 3 ``[] swap drop", "1 2 3 4 ```[5, 6]", "1 (== 1)", "[1, 2] elem ?1", "[1, 2] elem !0", "1 2 `[3]",
                '"%( 1 %)%( "]" %)"', "(1, 2) (3, 4)", "let A := 1; A", "1 (|A| A A add)", "{1} apply"]


def nested_splices(n):
    t = "1"
    for _ in range(n):
        t = '"%( ' + t + ' %)"'
    return t


# texts at and beyond the limits at which a query is refused, and other refused texts: a refusal must leave nothing behind
# words that print a warning or fix an operand up on the way (the fix-up must happen every time, not once per process)
SYNTAX_STATE += ["-3 0x10 aset", "0x10 -3 aset", "-3 0x10 aset length", "1 5 aset -2 ?contains", '"a" 1 add', "1 0 div", "(1, 2) 0 mod", "-3 0x10 aset"]
SYNTAX_STATE += [nested_splices(99), nested_splices(100), nested_splices(3), "[" * 330 + "]" * 330, "[" * 600 + "]" * 600, "1 )", '"abc', "let A := ;", '"%( 1 "',
                 nested_splices(100), nested_splices(99)]


def reference(text, inp):
    """Result sequence of a fresh process."""
    d = common.Driver()
    try:
        r = d.run(text, inp=inp, fuel=zcheck.FUEL * 5, max=300)
    finally:
        d.kill()
    return r


def ser(stack_json):
    return json.dumps(stack_json, sort_keys=True)


def schedules(pulls, rng, limit):
    """Interleavings of per-result op sequences: result i does pulls[i] x 'n' then 'd'."""
    seqs = [[(i, "n")] * p + [(i, "d")] for i, p in enumerate(pulls)]
    total = sum(len(s) for s in seqs)
    # enumerate all interleavings lazily by random shuffles if too many
    def all_il(seqs):
        if all(not s for s in seqs):
            yield []
            return
        for i, s in enumerate(seqs):
            if s:
                rest = [list(x) for x in seqs]
                head = rest[i].pop(0)
                for tail in all_il(rest):
                    yield [head] + tail
    import math
    count = math.factorial(total)
    for s in seqs:
        count //= math.factorial(len(s))
    if count <= limit:
        return list(all_il(seqs)), True
    out = []
    for _ in range(limit):
        rest = [list(x) for x in seqs]
        sch = []
        while any(rest):
            i = rng.choice([j for j, s in enumerate(rest) if s])
            sch.append(rest[i].pop(0))
        out.append(sch)
    return out, False


def run_history(d, qid, execs, sched, refs, bad, ctx):
    """execs: list of input specs (one result each); sched: list of (result index, op)."""
    got = [[] for _ in execs]
    live = set()
    for i, inp in enumerate(execs):
        r = d.req("exec qid=%s rid=r%d in=%s fuel=0" % (qid, i, inp))
        if r["st"] != "ok":
            bad.append(("execute-failed", dict(ctx, st=r["st"], msg=r.get("msg"))))
            return
        live.add(i)
    for i, op in sched:
        if op == "n":
            r = d.req("next rid=r%d max=1 fuel=%d" % (i, zcheck.FUEL * 5))
            if r["evbad"]:
                bad.append(("api-contract", dict(ctx, ev=r["ev"])))
            ref = refs[execs[i]]
            k = len(got[i])
            if r["st"] == "cut" or (r["st"] == "done" and r["res"]):
                got[i].append(ser(r["res"][0]))
                if k >= len(ref["res"]) or got[i][k] != ser(ref["res"][k]):
                    bad.append(("impure:pull-differs-from-fresh-run", dict(ctx, result=i, pull=k, got=got[i][k][:300],
                                                                             want=ser(ref["res"][k])[:300] if k < len(ref["res"]) else "(end)")))
                    return
            elif r["st"] == "done":
                if ref["st"] != "done" or k != len(ref["res"]):
                    bad.append(("impure:ended-early", dict(ctx, result=i, pull=k, want_results=len(ref["res"]), ref_st=ref["st"])))
                    return
            elif r["st"] == "error":
                if ref["st"] != "error" or k != len(ref["res"]):
                    bad.append(("impure:raised-unlike-fresh-run", dict(ctx, result=i, pull=k, msg=r["msg"], ref_st=ref["st"])))
                    return
        else:
            d.req("rdestroy rid=r%d" % i)
            live.discard(i)
    for i in list(live):
        d.req("rdestroy rid=r%d" % i)


def job(payload):
    seed, count, opts = payload
    d = common.get_driver()
    rng = random.Random(seed)
    out = {"n": 0, "histories": 0, "pulls": 0, "exhaustive_sets": 0, "compile_histories": 0, "nontrivial": 0, "bad": [], "samples": [], "ctx": {}}
    limit = opts["limit"]
    errq = [("let Ea Eb := 5 ;", ""), ("1 2 drop drop drop", ""), ('"a" 1 add', ""), ("let Ea Eb Ec := 1 2 ;", ""), ("( 1 , drop ) ( 2 == 2 )", "")]
    for c in range(count):
        g = zgen.Gen(rng, maxdepth=rng.randint(1, 4), err_rate=0.03)
        ninp = rng.randint(1, 3)
        inps = [rng.choice(INPUTS) for _ in range(ninp)]
        ts = []
        prog = g.program(["c"] if any(inps) else [])
        text = zast.text(prog)
        out["n"] += 1
        zcheck.tally_ctx(out, prog)
        bad = []
        try:
            refs = {}
            for inp in set(inps):
                refs[inp] = reference(text, inp)
            if any(zcheck.skipped(r) or r["st"] in ("reject", "harness") for r in refs.values()):
                # compile verdict itself must be reproducible
                if any(r["st"] == "reject" for r in refs.values()):
                    r = d.req("parse q=%s" % common.hx(text))
                    if r["st"] != "reject":
                        bad.append(("compile-verdict-differs-from-fresh-process", dict(text=text)))
                out["bad"] += bad
                continue
            if max(len(r["res"]) for r in refs.values()) > 1:
                out["nontrivial"] += 1
            # compile history: other texts first, this text twice
            others = rng.sample(SYNTAX_STATE, rng.randint(0, 4))
            for j, o in enumerate(others):
                d.req("parse id=o%d q=%s" % (j, common.hx(o)))
            out["compile_histories"] += 1
            d.req("parse id=qa q=%s" % common.hx(text))
            d.req("parse id=qb q=%s" % common.hx(text))
            for j in range(len(others)):
                d.req("qdestroy id=o%d" % j)
            pulls = [min(len(refs[i]["res"]) + 1, rng.randint(0, 3)) for i in inps]
            scheds, exhaustive = schedules(pulls, rng, limit)
            if exhaustive:
                out["exhaustive_sets"] += 1
            for inp, rf in refs.items():
                if rf["st"] == "error" and len(errq) < 30:
                    errq.append((text, inp))
            for sch in scheds:
                if errq and rng.random() < 0.5:
                    # an execution of some OTHER query that ends in an error comes right before this history
                    et, ei = rng.choice(errq)
                    d.req("parse id=qe q=%s" % common.hx(et))
                    if d.req("exec qid=qe rid=re in=%s fuel=0" % ei)["st"] == "ok":
                        d.req("next rid=re max=300 fuel=%d" % (zcheck.FUEL * 5))
                        d.req("rdestroy rid=re")
                        out["after_error"] = out.get("after_error", 0) + 1
                    d.req("qdestroy id=qe")
                qid = rng.choice(["qa", "qb"])
                out["histories"] += 1
                out["pulls"] += sum(1 for _, op in sch if op == "n")
                run_history(d, qid, inps, sch, refs, bad, dict(text=text, inputs=inps, schedule="".join("%d%s" % x for x in sch), query=qid))
                if bad:
                    break
            # destroy the query while a result is live, then keep pulling
            r = d.req("exec qid=qa rid=rz in=%s" % inps[0])
            d.req("qdestroy id=qa")
            if r["st"] == "ok":
                rr = d.req("next rid=rz max=300 fuel=%d" % (zcheck.FUEL * 5))
                ref = refs[inps[0]]
                if [ser(x) for x in rr["res"]] != [ser(x) for x in ref["res"]] or (rr["st"] == "error") != (ref["st"] == "error"):
                    bad.append(("impure:result-after-query-destroyed", dict(text=text, input=inps[0])))
                d.req("rdestroy rid=rz")
            d.req("qdestroy id=qb")
            if len(out["samples"]) < 2:
                out["samples"].append(dict(text=text, inputs=inps, schedule="".join("%d%s" % x for x in scheds[0])))
        except common.DriverCrash as ex:
            bad.append(("crash:" + getattr(ex, "key", ex.kind), dict(text=text, request=ex.request[:500], report=ex.report[-3000:])))
        except common.DriverTimeout as ex:
            bad.append(("hang", dict(text=text, request=ex.request[:500])))
        out["bad"] += bad[:3]
    out["bad"] = out["bad"][:40]
    return out


def job_syntax_state(payload):
    """Parser-side state: every ordered pair of texts compiled in one process; each must then run as when fresh."""
    seed, pairs = payload
    d = common.get_driver()
    out = {"compile_pairs": 0, "bad": []}
    refs = {}
    for a, b in pairs:
        for t in (a, b):
            if t not in refs:
                refs[t] = reference(t, "")
        try:
            va = d.req("parse id=pa q=%s" % common.hx(a))
            vb = d.req("parse id=pb q=%s" % common.hx(b))
            out["compile_pairs"] += 1
            for t, v in ((a, va), (b, vb)):
                if (v["st"] == "reject") != (refs[t]["st"] == "reject"):
                    out["bad"].append(("impure:compile-verdict-depends-on-what-was-compiled-before", dict(first=a[:80], second=b[:80], affected=t[:80],
                                                                                                         here=v["st"], fresh=refs[t]["st"], msg=v.get("msg"))))
            for qid, t in (("pb", b), ("pa", a)):
                if d.req("exec qid=%s rid=rp in=" % qid)["st"] != "ok":
                    continue        # that text was refused (verdict compared above)
                r = d.req("next rid=rp max=300 fuel=200000")
                d.req("rdestroy rid=rp")
                if [ser(x) for x in r.get("res", [])] != [ser(x) for x in refs[t]["res"]]:
                    out["bad"].append(("impure:compile-history", dict(first=a, second=b, affected=t)))
            d.req("qdestroy id=pa"); d.req("qdestroy id=pb")
        except common.DriverCrash as ex:
            out["bad"].append(("crash:" + getattr(ex, "key", ex.kind), dict(first=a, second=b, report=ex.report[-3000:])))
    return out


def job_dwarf(payload):
    """A Dwarf value reused across executions; producers with internal caches."""
    path, seed = payload
    d = common.get_driver()
    rng = random.Random(seed)
    out = {"dw_histories": 0, "dw_pulls": 0, "bad": [], "samples": []}
    tag = os.path.basename(path)
    try:
        refs = {}
        for p in DW_PROGS:
            dd = common.Driver()
            try:
                refs[p] = dd.run(p, inp="d:" + common.hx(path), fuel=0, max=100000, timeout=120)
            finally:
                dd.kill()
        r = d.req("open id=dw path=%s" % common.hx(path))
        if r["st"] != "ok":
            return out
        progs = list(DW_PROGS)
        for rnd in range(3):
            rng.shuffle(progs)
            for i in range(0, len(progs) - 1, 2):
                a, b = progs[i], progs[i + 1]
                d.req("parse id=da q=%s" % common.hx(a)); d.req("parse id=db q=%s" % common.hx(b))
                d.req("exec qid=da rid=ra in=v:dw"); d.req("exec qid=db rid=rb in=v:dw")
                ga, gb = [], []
                done = {"ra": False, "rb": False}
                out["dw_histories"] += 1
                while not all(done.values()):
                    rid = rng.choice([k for k, v in done.items() if not v])
                    rr = d.req("next rid=%s max=%d fuel=0" % (rid, rng.choice([1, 1, 2, 7])), timeout=120)
                    out["dw_pulls"] += 1
                    (ga if rid == "ra" else gb).extend(ser(x) for x in rr["res"])
                    if rr["st"] in ("done", "error") or (rnd == 2 and rng.random() < 0.1):
                        done[rid] = True
                for rid, got, p in (("ra", ga, a), ("rb", gb, b)):
                    want = [ser(x) for x in refs[p]["res"]]
                    if got != want[:len(got)] or (rnd < 2 and len(got) != len(want)):
                        out["bad"].append(("impure:dwarf-value-reused", dict(file=tag, query=p, other=(b if p == a else a), got=len(got), want=len(want))))
                    d.req("rdestroy rid=%s" % rid)
                d.req("qdestroy id=da"); d.req("qdestroy id=db")
        # abandoned executions: pull k results of one query, destroy it, then everything else must still be as in a fresh process
        for a in DW_PROGS:
            na = len(refs[a]["res"])
            for k in sorted(set([1, 2, 3, max(1, na // 2), max(1, na - 1)])):
                if k > na:
                    continue
                d.req("parse id=da q=%s" % common.hx(a))
                d.req("exec qid=da rid=ra in=v:dw")
                rr = d.req("next rid=ra max=%d fuel=0" % k, timeout=120)
                out["dw_pulls"] += 1
                if [ser(x) for x in rr["res"]] != [ser(x) for x in refs[a]["res"][:k]]:
                    out["bad"].append(("impure:dwarf-value-reused", dict(file=tag, query=a, pulled=k, note="prefix differs")))
                d.req("rdestroy rid=ra"); d.req("qdestroy id=da")
                out["dw_abandoned"] = out.get("dw_abandoned", 0) + 1
                for b in [a] + rng.sample(DW_PROGS, 2):
                    d.req("parse id=db q=%s" % common.hx(b))
                    d.req("exec qid=db rid=rb in=v:dw")
                    rb = d.req("next rid=rb max=100000 fuel=0", timeout=120)
                    out["dw_pulls"] += 1
                    if [ser(x) for x in rb["res"]] != [ser(x) for x in refs[b]["res"]]:
                        out["bad"].append(("impure:after-abandoned-execution", dict(file=tag, abandoned=a, after_pulls=k, query=b,
                                                                                      got=len(rb["res"]), want=len(refs[b]["res"]))))
                    d.req("rdestroy rid=rb"); d.req("qdestroy id=db")
        # values kept across executions: a DIE reached through imports, one of a plain unit, a raw one, a unit, an attribute.
        # Every execution gets a copy of the SAME kept value on its input stack; whatever ran before, it yields what a fresh
        # process yields for that value, and the kept value itself never changes
        kept = []
        picks = d.run("[entry ?(parent)] (|L| L elem ?(pos == 0), L elem ?(pos == L length 2 div), L relem ?(pos == 0))", inp="d:" + common.hx(path), fuel=0, max=10, timeout=120)
        specs = []
        for sres in (picks["res"] if picks["st"] == "done" else []):
            v = sres[-1]
            if v["t"] == "die":
                specs.append("entry ?(offset == %#x)" % v["o"])
        specs += ["raw entry ?(offset == %s)" % x.split("== ")[1].rstrip(")") for x in specs[:1]] + ["unit", "entry attribute"]
        for i, sp in enumerate(specs[:6]):
            src = "d:%s,q:%s" % (common.hx(path), common.hx("[%s] elem ?(pos == 0)" % sp))
            rk = d.req("keep id=k%d in=%s" % (i, src), timeout=120)
            if rk["st"] != "ok":
                continue
            vrefs = {}
            for vp in VAL_PROGS:
                dd = common.Driver()
                try:
                    dd.req("keep id=kr in=%s" % src, timeout=120)
                    vrefs[vp] = dd.run(vp, inp="v:kr", fuel=0, max=100000, timeout=120)
                finally:
                    dd.kill()
            kept.append((i, sp, rk["value"], vrefs))
        for i, sp, ser0, vrefs in kept:
            order = list(VAL_PROGS) * 2
            rng.shuffle(order)
            for vp in order:
                rr = d.run(vp, inp="v:k%d" % i, fuel=0, max=100000, timeout=120)
                out["dw_pulls"] += 1
                out["kept_value_runs"] = out.get("kept_value_runs", 0) + 1
                ref = vrefs[vp]
                if rr["st"] != ref["st"] or [ser(x) for x in rr["res"]] != [ser(x) for x in ref["res"]]:
                    out["bad"].append(("impure:kept-value-yields-differently-after-other-executions", dict(file=tag, value=sp, query=vp, got=len(rr["res"]), want=len(ref["res"]),
                                                                                                       st=rr["st"], ref_st=ref["st"])))
                    break
                if not rr.get("in_same", True):
                    out["bad"].append(("input-stack-modified", dict(file=tag, value=sp, query=vp))); break
            chk2 = d.req("keep id=kx in=v:k%d" % i)
            if chk2["st"] == "ok" and ser(chk2["value"]) != ser(ser0):
                out["bad"].append(("impure:kept-value-changed", dict(file=tag, value=sp)))
        d.req("close id=dw")
        out["samples"].append(dict(file=tag, queries=DW_PROGS[:3]))
    except common.DriverCrash as ex:
        out["bad"].append(("crash:" + getattr(ex, "key", ex.kind), dict(file=tag, request=ex.request[:300], report=ex.report[-3000:])))
    except common.DriverTimeout as ex:
        out["bad"].append(("hang", dict(file=tag, request=ex.request[:300])))
    return out


VOC_TEXTS = ["0 10 aset length", "[1, 2] length", '"abc" length', "0 5 aset 7 9 aset add", "[1] [2] add", "0 5 aset elem", "[1, 2] elem", "0 3 aset ?empty",
             "[] ?empty", "0 9 aset 3 ?contains", "1 2 add", '"a" "b" add', "0 5 aset (1 3 aset) sub", "3 2 sub", "0 5 aset relem", '"ab" relem', "0 5 aset low",
             "0 4 aset (2 9 aset) overlap", "[0 4 aset, 1] elem length", "(0 4 aset, [1], \"a\") length", "0 4 aset value", "0x10 value", "1 pos", "T_ASET", "DW_AT_name value"]


def job_many_inputs(payload):
    """ONE compiled query executed dozens of times on a stream of different inputs, earlier ones coming back after many others: each
    execution must yield what a fresh compile-and-run yields for that input.  And, on one opened Dwarf, the same question asked of the
    same DIE in the cooked and in the raw view right after each other, against each view asked alone on a handle of its own."""
    seed, = payload
    d = common.get_driver()
    rng = random.Random(seed)
    out = {"many_input_execs": 0, "view_pairs": 0, "bad": []}
    pats = [chr(97 + i) for i in range(26)] + ["ab", "bc", "a.*z", "m.*", "q", "xyz", "[a-c]", "(d|e)f", "g+", "^a", "z$", "no"]
    texts = ['"abcdefghijklmnopqrstuvwxyz" swap ?match', '"abcdefghijklmnopqrstuvwxyz" swap !match', '(|P| ("abcdef", "uvwxyz", "mno") ?(=~ P))',
             '"abcdefghijklmnopqrstuvwxyz" swap ?find', '(|P| "<%( P %)>" P add length)', '(|P| [P, "b", P] (== [P, "b", P]))']
    try:
        for t in texts:
            d.req("parse id=mi q=%s" % common.hx(t))
            first = rng.sample(pats, 4)
            stream = first + rng.sample([p for p in pats if p not in first], rng.randint(17, 24)) + first[:2] + rng.sample(pats, 6) + first
            refs = {}
            for p in stream:
                inp = "s:%s:0" % p.encode().hex()
                if p not in refs:
                    refs[p] = d.run(t, inp=inp, fuel=0, max=1000)
                d.req("exec qid=mi rid=mir in=%s fuel=0" % inp)
                rr = d.req("next rid=mir max=1000 fuel=0")
                d.req("rdestroy rid=mir")
                out["many_input_execs"] += 1
                if (rr["st"], [ser(x) for x in rr.get("res", [])], bool(rr["stderr"])) != (refs[p]["st"], [ser(x) for x in refs[p].get("res", [])], bool(refs[p]["stderr"])):
                    out["bad"].append(("impure:execution-after-many-others-differs-from-fresh-compile", dict(text=t, input=p, position_in_stream=stream.index(p), stream_length=len(stream),
                                                                                                          got=len(rr.get("res", [])), want=len(refs[p].get("res", [])))))
                    break
            d.req("qdestroy id=mi")
        tdir = os.path.join(common.REPO, "tests")
        for f in ("nullptr.o", "typedef.o", "dwz-partial"):
            path = os.path.join(tdir, f)
            if not os.path.exists(path):
                continue
            for w in rng.sample(["name", "@AT_name", "@AT_decl_line", "@AT_type", "@AT_byte_size", "?AT_name 1", "?AT_external 1", "!AT_name 1", "attribute label", "child offset", "parent offset"], 5):
                alone_c = d.run("entry (|D| [D %s])" % w, inp="d:" + common.hx(path), fuel=0, max=100000, timeout=120)
                alone_r = d.run("entry (|D| [D raw %s])" % w, inp="d:" + common.hx(path), fuel=0, max=100000, timeout=120)
                for order in ("[D %s] [D raw %s] [D %s]", "[D raw %s] [D %s] [D raw %s]"):
                    both = d.run("entry (|D| %s)" % (order % (w, w, w)), inp="d:" + common.hx(path), fuel=0, max=100000, timeout=120)
                    out["view_pairs"] += 1
                    if both["st"] != "done" or alone_c["st"] != "done" or alone_r["st"] != "done":
                        if not (both["st"] == alone_c["st"] == alone_r["st"]):
                            out["bad"].append(("impure:views-asked-after-each-other:status", dict(file=f, word=w, st=[both["st"], alone_c["st"], alone_r["st"]])))
                        continue
                    cooked_first = order.startswith("[D %s]")
                    for k, st in enumerate(both["res"]):
                        a, b, c = [ser(x) for x in st[-3:]]
                        wc, wr = ser(alone_c["res"][k][-1]), ser(alone_r["res"][k][-1])
                        want = (wc, wr, wc) if cooked_first else (wr, wc, wr)
                        if (a, b, c) != want:
                            out["bad"].append(("impure:raw-and-cooked-view-asked-right-after-each-other-on-one-Dwarf", dict(file=f, word=w, die_index=k, order=order % (w, w, w))))
                            break
    except common.DriverCrash as ex:
        out["bad"].append(("crash:" + getattr(ex, "key", ex.kind), dict(report=ex.report[-3000:])))
    except common.DriverTimeout as ex:
        out["bad"].append(("hang", dict()))
    out["bad"] = out["bad"][:30]
    return out


def job_vocgrow(payload):
    """The same text compiled twice with ONE vocabulary object that grew in between (core words first, DWARF words added): the second
    query must be what a fresh compile with the complete vocabulary is -- overloaded words (length, add, elem, ...) mean more afterwards."""
    seed, count = payload
    d = common.get_driver()
    rng = random.Random(seed)
    out = {"vocgrow_runs": 0, "vocgrow_first_compile_rejected_or_narrower": 0, "bad": []}
    texts = list(VOC_TEXTS)
    for i in range(count):
        g = zgen.Gen(rng, maxdepth=rng.randint(1, 3), err_rate=0.05)
        texts.append(zast.text(g.program([])))
    tdir = os.path.join(common.REPO, "tests")
    f = os.path.join(tdir, "typedef.o")
    dw = [("entry name", "d:" + common.hx(f)), ("entry ?TAG_typedef @AT_type length", "d:" + common.hx(f)), ("[entry] length", "d:" + common.hx(f)), ("entry offset", "d:" + common.hx(f))]
    # texts made of core words only -- they compile both times -- applied to values only the complete vocabulary knows how to handle
    A1, A2 = "q:" + common.hx("0 10 aset"), "q:" + common.hx("0 5 aset 7 9 aset")
    over = [("length", A1), ("elem", A1), ("relem", A1), ("?empty", A1), ("!empty", A1), ("add", A2), ("sub", A2), ("dup add length", A1), ("[elem] length", A1),
            ("dup ?eq", A1), ('"%s"', A1), ("type", A1), ("(|A| A length, [A elem])", A1), ("?(length == 10)", A1), ("if ?empty then 1 else length", A1)]
    if os.path.exists(f):
        D1 = "d:" + common.hx(f) + ",q:" + common.hx("[entry attribute] elem ?1")
        D2 = "d:" + common.hx(f) + ",q:" + common.hx("[entry] elem ?2")
        over += [("value", D1), ("[value]", D1), ("dup value", D1), ('"%s"', D1), ("type", D2), ('"%s"', D2), ("dup ?eq", D2)]
    for t, inp in [(t, "") for t in texts] + (dw if os.path.exists(f) else []) + over:
        try:
            a = d.run(t, inp=inp, fuel=zcheck.FUEL, max=zcheck.MAXRES)
            b = d.run(t, inp=inp, fuel=zcheck.FUEL, max=zcheck.MAXRES, voc="grow")
            if zcheck.skipped(a) or zcheck.skipped(b):
                continue
            out["vocgrow_runs"] += 1
            if (a["st"], a.get("res"), bool(a["stderr"])) != (b["st"], b.get("res"), bool(b["stderr"])):
                out["bad"].append(("impure:compiled-again-after-the-vocabulary-grew", dict(text=t, fresh=dict(st=a["st"], msg=a.get("msg"), n=len(a.get("res", [])), stderr=a["stderr"][:200]),
                                                                                           again=dict(st=b["st"], msg=b.get("msg"), n=len(b.get("res", [])), stderr=b["stderr"][:200]))))
            if b.get("evbad"):
                out["bad"].append(("api-contract", dict(text=t, ev=b["ev"])))
        except common.DriverCrash as ex:
            out["bad"].append(("crash:" + getattr(ex, "key", ex.kind), dict(text=t, report=ex.report[-3000:])))
        except common.DriverTimeout as ex:
            out["bad"].append(("hang", dict(text=t)))
    out["bad"] = out["bad"][:30]
    return out


DEEP_TEXTS = ["let .seq := {|F T seq| ?(F T ?le) F, ?(F T ?lt) F 1 add T {seq} seq}; let seq := {{.seq} .seq}; 1 %d seq",
              "let .cnt := {|N cnt| N, ?(N 0 ?gt) N 1 sub {cnt} cnt}; let cnt := {{.cnt} .cnt}; %d cnt",
              "[(1, 2, 3)] (|S| let .w := {|K w| K S elem add, ?(K %d ?lt) K 1 add {w} w}; {.w} .w)"]


def job_many_live(payload):
    """MANY result sets of one compiled query alive at once, each read part of the way into a deep chain of closure applications and
    parked; then one more execution from start to end, then every parked one resumed: each must yield what a fresh process yields."""
    seed, = payload
    d = common.get_driver()
    rng = random.Random(seed)
    out = {"many_live_sets": 0, "many_live_pulls": 0, "bad": []}
    for tmpl in DEEP_TEXTS:
        depth = rng.choice([40, 70, 100])
        text = tmpl % depth
        inp = "" if "|K w|" not in text else "i:0:dec:0"
        try:
            fresh = common.Driver()
            try:
                ref = fresh.run(text, inp=inp, fuel=0, max=5000, timeout=120)      # (finite by construction: no step budget)
            finally:
                fresh.kill()
            if ref["st"] != "done" or len(ref["res"]) < 10:
                out["bad"].append(("many-live:reference-run-failed", dict(text=text, st=ref["st"], msg=ref.get("msg")))); continue
            want = [ser(x) for x in ref["res"]]
            d.req("parse id=ml q=%s" % common.hx(text))
            K = rng.choice([6, 10, 16])
            cut = [rng.randint(len(want) // 3, len(want) - 2) for _ in range(K)]
            ok = True
            for i in range(K):
                d.req("exec qid=ml rid=ml%d in=%s fuel=0" % (i, inp))
                rr = d.req("next rid=ml%d max=%d fuel=0" % (i, cut[i]), timeout=120)
                out["many_live_pulls"] += 1
                if [ser(x) for x in rr.get("res", [])] != want[:cut[i]]:
                    out["bad"].append(("impure:parked-result-sets:prefix-differs-from-fresh-run", dict(text=text, live=i, st=rr["st"], msg=rr.get("msg"), got=len(rr.get("res", [])), want=cut[i])))
                    ok = False; break
            if ok:
                d.req("exec qid=ml rid=mlx in=%s fuel=0" % inp)
                rr = d.req("next rid=mlx max=100000 fuel=0", timeout=120)
                if rr["st"] != "done" or [ser(x) for x in rr.get("res", [])] != want:
                    out["bad"].append(("impure:execution-beside-parked-result-sets-differs-from-fresh-run", dict(text=text, live=K, st=rr["st"], msg=rr.get("msg"), got=len(rr.get("res", [])), want=len(want))))
                d.req("rdestroy rid=mlx")
                order = list(range(K)); rng.shuffle(order)
                for i in order:
                    rr = d.req("next rid=ml%d max=100000 fuel=0" % i, timeout=120)
                    out["many_live_pulls"] += 1
                    if rr["st"] != "done" or [ser(x) for x in rr.get("res", [])] != want[cut[i]:]:
                        out["bad"].append(("impure:resumed-result-set-differs-from-fresh-run", dict(text=text, live=K, st=rr["st"], msg=rr.get("msg"), got=len(rr.get("res", [])), want=len(want) - cut[i])))
                        break
                out["many_live_sets"] += K
            for i in range(K):
                d.req("rdestroy rid=ml%d" % i)
            d.req("qdestroy id=ml")
        except common.DriverCrash as ex:
            out["bad"].append(("crash:" + getattr(ex, "key", ex.kind), dict(text=text, report=ex.report[-3000:])))
        except common.DriverTimeout as ex:
            out["bad"].append(("hang", dict(text=text)))
    return out


def run(chk):
    quick = chk.tier == "quick"
    pool = common.Pool()
    tot, ctx, samples = {}, {}, []
    n = 1280 if quick else 12800
    per = 10
    zcheck.consume(chk, pool.map(job, [(chk.seed * 611953 + i, per, {"limit": 12 if quick else 80}) for i in range(n // per)]), tot, ctx, samples, "C12")
    pairs = [(a, b) for a in SYNTAX_STATE for b in SYNTAX_STATE]
    zcheck.consume(chk, pool.map(job_syntax_state, [(1, pairs[i:i + 12]) for i in range(0, len(pairs), 12)]), tot, ctx, samples, "C12 compile pairs")
    tdir = os.path.join(common.REPO, "tests")
    files = [os.path.join(tdir, f) for f in ("typedef.o", "nontrivial-types.o", "dwz-partial", "a1.out", "enum.o", "bitcount.o", "dwz-partial2-1", "char_16_32.o", "twocus", "dwz-partial3-1")
             if os.path.exists(os.path.join(tdir, f))]
    zcheck.consume(chk, pool.map(job_dwarf, [(f, chk.seed + i) for i, f in enumerate(files)]), tot, ctx, samples, "C12 dwarf")
    zcheck.consume(chk, pool.map(job_many_live, [(chk.seed * 15485863 + i,) for i in range(6 if quick else 100)]), tot, ctx, samples, "C12 many live")
    zcheck.consume(chk, pool.map(job_many_inputs, [(chk.seed * 32452867 + i,) for i in range(6 if quick else 100)]), tot, ctx, samples, "C12 many inputs")
    zcheck.consume(chk, pool.map(job_vocgrow, [(chk.seed * 2750159 + i, 30) for i in range(8 if quick else 160)]), tot, ctx, samples, "C12 vocabulary")
    hs = pool.hook_stats()
    pool.finish()
    chk.cov.update({
        "result_sets_parked_deep_in_closure_recursion_beside_each_other": tot.get("many_live_sets", 0),
        "executions_of_one_query_on_long_streams_of_inputs": tot.get("many_input_execs", 0), "raw_and_cooked_view_asked_after_each_other": tot.get("view_pairs", 0),
        "texts_compiled_again_after_their_vocabulary_grew": tot.get("vocgrow_runs", 0),
        "evaluations": tot.get("histories", 0) + tot.get("compile_pairs", 0) + tot.get("dw_histories", 0),
        "distinct_nontrivial": tot.get("nontrivial", 0),
        "rule": "one evaluation = one API history (interleaving of pulls/destroys over 1-3 live results of one compiled text) compared pull by pull "
                "with a fresh process; non-trivial = program with more than one result for some input",
        "programs": tot.get("n", 0), "pulls_compared": tot.get("pulls", 0) + tot.get("dw_pulls", 0),
        "programs_whose_interleavings_were_enumerated_exhaustively": tot.get("exhaustive_sets", 0),
        "compile_histories": tot.get("compile_histories", 0), "ordered_text_pairs_compiled_in_one_process": tot.get("compile_pairs", 0),
        "histories_run_right_after_an_execution_that_raised": tot.get("after_error", 0),
        "runs_on_values_kept_across_executions": tot.get("kept_value_runs", 0),
        "dwarf_reuse_histories": tot.get("dw_histories", 0), "dwarf_abandoned_executions_followed_by_full_runs": tot.get("dw_abandoned", 0),
        "state_types_seen": sorted((hs.get("state_types") or {}).keys()),
        "samples": samples[:5],
    })
    chk.assumptions += ["the engine is deterministic (a fresh process gives THE reference sequence)"]
    if tot.get("histories", 0) < 1000:
        chk.inconc("too few histories")


def replay(path):
    w = json.load(open(path))
    print(json.dumps(w, indent=1)[:3000])
    return 0
