"""C19 -- the command line's grep-like contract.

Monitor: a small contract model of exit status / stdout / stderr, fed with FACTS obtained
from the library through zwdrv for the same query and every argument combination (does it
compile, which results, does it raise after k results, which files open), compared with
what the real `dwgrep` binary (ASan build) does for every generated invocation:
flags subset of -q -s -c -H -h  x  query source (-e, -f, positional)  x  query pool
(0/1/many results, compile error, run-time error after k results, soft error only)  x
0-3 files (valid, second valid, nonexistent, directory, non-ELF)  x  0-2 -a/--a arguments
yielding 0-3 values."""
import itertools, json, os, random, subprocess, tempfile
from vf import common, zcheck

T = os.path.join(common.REPO, "tests")
FILES = {"v1": os.path.join(T, "typedef.o"), "v2": os.path.join(T, "enum.o"), "v3": os.path.join(T, "bitcount.o"), "v4": os.path.join(T, "nontrivial-types.o"), "v5": os.path.join(T, "y.o"), "nx": "/nonexistent/file.o", "dir": T, "txt": os.path.join(T, "tests.sh")}
# queries yield integers/strings only, so that records are fully predictable from library renderings
QUERIES_NOFILE = ["1", "(1, 2, 3)", "!()", "1 2", '"a" "b" "c"', "1 )", "0x10 0o7 0b1", "(1, 2, drop drop)", "(drop, 1)", '(1, 2) "x" add', "[1, 2] elem hex",
                  '"%( (1, 2) %)-%s"' , "(1, 2, 3) if ?2 then (swap) else ()", "", "dup", "dup dup", "(|A| A A)", "(|A B| B A)", "type", "(|A| A (1, 2) add)",
                  # stacks of different depths in one run, deeper ones first
                  "(2 3, 4)", "(1 2 3, 4, 5 6, 7)", '("a" "b", "c")',
                  # several lines, line comments with code after them, a line break inside a literal, a #! line (all three ways of giving the query)
                  "1 // x\n2\nadd", "#!/usr/bin/dwgrep -f\n1 2", '"a\nb" length', "(1,\n2)\n// done", "1 # one\n(2, 3) /* c\nd */ add",
                  # raising depends on the argument: some combinations raise after k results, the ones after them do not
                  "(|A| (A, A (== 1) drop drop))", "(|A| (A, A, A (== 2) drop drop))", "(|A| (A (== 1) drop drop, A))", '(|A| (A, A (== "p") drop drop))']
QUERIES_FILE = ["entry offset", "entry ?TAG_typedef offset", "entry ?TAG_base_type name", "!()", "unit offset", "[entry] length", "entry offset (> 0x20)",
                "entry ?root drop drop", "(|Dw| Dw entry offset)", "entry name", "1 )", "entry @AT_byte_size", "(|Dw| 1)", "entry ?root offset swap drop",
                "(|Dw| (1, 2))", "entry offset 1 add drop drop drop", "(|Dw| (1 2, 3))", "entry ?root (offset 1, offset)",
                # results that are DWARF values: DIEs with their attributes, attributes with one / several / no values, units, location
                # expressions and their operations, address sets, sequences of all those, the Dwarf itself
                "entry", "unit", "entry attribute", "entry @AT_type", "[entry]", "entry ?TAG_typedef", "(|Dw| Dw)", "entry @AT_location",
                "entry @AT_location elem", "entry ?AT_location attribute ?AT_location", "[entry attribute]", "entry ?AT_low_pc address", "entry ?root [child]",
                "entry ?AT_location [attribute ?AT_location value]", "entry attribute ?AT_name dup value", "unit root", "entry (|D| D D name)",
                "0 0 aset, 1 5 aset 7 9 aset add", "entry ?AT_location (@AT_location address, @AT_location elem offset)", "raw entry", "raw entry attribute",
                # ELF symbols: the CLI's own symbol line (index, value, size, type / binding / visibility of the file's machine, name)
                # units and DIEs (and strings with unprintable bytes) printed one after the other: what one printer does to the stream must not show in the next
                "(unit, entry)", "unit (|U| U, U root)", '[unit, entry ?root, "\\x02"]', '(unit, "a\\x02b", entry ?root)',
                "symbol", "[symbol (pos < 5)]", "symbol (pos < 3) (name, label, size)"]
ARGS = [("-a", "x"), ("-a", "hello"), ("-a", "a%%b"), ("-a", "%s"), ("-a", "<%s>"), ("-a", "%( 1 %)"), ("-a", 'q"q'), ("-a", "b\\s"), ("-a", "100%"), ("-a", ""),
        ("-a", "two words"), ("-a", "%d=%x"), ("-a", "line\nbreak"), ("-a", "\\x41"), ("-a", "caf\u00e9"), ("--a", "1"), ("--a", "(1, 2)"), ("--a", "(1, 2, 3)"), ("--a", "!()"), ("--a", '"s"'), ("--a", '("p", "q")'), ("--a", "0x10"),
        ("--a", "[7, 8] elem"), ("--a", "1 )"), ("--a", "drop"),
        # values that are sequences: the header of a run shows them in brief form
        ("--a", "[1, 2], [3, 4, 5]"), ("--a", '[1, "a"]'), ("--a", "[[1, 2], 3], []"), ("--a", '["x", "y"], ["z"]')]


def brief_str(b):
    out = '"'
    for c in b:
        ch = chr(c)
        if ch == '"': out += '\\"'
        elif ch == "%": out += "%%"
        elif ch == "\\": out += "\\\\"
        elif 0x20 <= c < 0x7f: out += ch
        else: out += "\\x%02x" % c
    return out + '"'


def facts_arg(d, kind, text):
    """Values an argument contributes: list of (spec, header text) or ('error', msg)."""
    if kind == "-a":
        return [("s:%s:0" % text.encode().hex(), brief_str(text.encode()))]
    r = d.run(text, fuel=100000, max=50)
    if r["st"] != "done":
        return ("error", r.get("msg", ""))
    vals = []
    for s in r["res"]:
        if not s:
            return ("error", "empty stack yielded")
        v = s[-1]
        if v["t"] == "c":
            if v["d"] not in ("dec", "hex", "oct", "bin"):
                return None
            spec = ("i:%s:%s:%d" if v["s"] else "u:%s:%s:%d") % (v["v"], v["d"], v["p"])
            vals.append((spec, v["b"]))
        elif v["t"] == "s":
            vals.append(("s:%s:%d" % (v["v"], v["p"]), brief_str(bytes.fromhex(v["v"]))))
        elif v["t"] == "q" and v["p"] == 0:
            # a sequence (of decimal integers, strings, sequences): its brief rendering is a literal that denotes it, and is what the header shows
            try:
                b = brief(v)
            except Unrenderable:
                return None
            vals.append(("q:%s" % b.hex(), b.decode("latin-1")))
        else:
            return None
    return vals


class Unrenderable(Exception):
    pass


def hexsb(n):
    """iostream std::hex << std::showbase: zero has no prefix."""
    n &= (1 << 64) - 1
    return b"0" if n == 0 else hex(n).encode()


def quoted(b):
    out = b'"'
    esc = {0x22: b'\\"', 0x25: b"%%", 0x5c: b"\\\\", 7: b"\\a", 8: b"\\b", 9: b"\\t", 10: b"\\n", 11: b"\\v", 12: b"\\f", 13: b"\\r"}
    for c in b:
        if c in esc:
            out += esc[c]
        elif 0x20 <= c < 0x7f:
            out += bytes([c])
        else:
            out += b"\\x%02x" % c
    return out + b'"'


def brief(v):
    """The nested rendering (doc/tutorial: values inside sequences, attribute values, operands)."""
    t = v["t"]
    if t == "c":
        return v["b"].encode("latin-1")
    if t == "s":
        return quoted(bytes.fromhex(v["v"]))
    if t == "q":
        return b"[" + b", ".join(brief(e) for e in v["v"]) + b"]"
    if t == "dw":
        return b"<Dwarf " + quoted(v["n"].encode("latin-1")) + b">"
    if t == "cu":
        return b"<CU " + hexsb(v["o"]) + b">"
    if t == "die":
        return b"[%x] " % v["o"] + label(v)
    if t == "at":
        return attr(v, b"\n\t\t")
    if t == "lle":
        return llelem(v)
    if t == "llo":
        return llop(v)
    if t == "as":
        return aset(v)
    if t == "sym":
        return elfsym(v)
    raise Unrenderable(t)


def label(v):
    l = v.get("lbl")
    if not l or l[0]["t"] != "c":
        raise Unrenderable("label")
    return l[0]["b"].encode("latin-1")


def attr(v, sep):
    vals = v.get("vals")
    if vals is None or any(x["t"] == "err" for x in vals):
        raise Unrenderable("attribute values")
    out = label(v)
    if len(vals) == 0:
        return out + b"\t<no value>"
    if len(vals) == 1:
        return out + b"\t" + brief(vals[0])
    return out + b"".join(sep + brief(x) for x in vals)


def llop(v):
    p = v.get("props")
    if not p or len(p) < 2 or any(x["t"] == "err" for x in p):
        raise Unrenderable("operation")
    return brief(p[0]) + b" " + brief(p[1]) + b"".join(b" <" + brief(x) + b">" for x in p[2:])


def llelem(v):
    e = v.get("elems")
    if e is None or any(x["t"] == "err" for x in e):
        raise Unrenderable("location expression")
    return hexsb(int(v["lo"])) + b".." + hexsb(int(v["hi"])) + b":" + (b", ".join(llop(x) for x in e) if e else b"<empty location expression>")


def aset(v):
    if not v["r"]:
        return b"<empty range>"
    return b", ".join(hexsb(int(a)) + b".." + hexsb(int(a) + int(l)) for a, l in v["r"])


def elfsym_line(idx, value, size, t, b, v, name):
    """The CLI's line for an ELF symbol: index, value (hexadecimal, padded with zeros to 16 columns, prefix included; iostream prints
    zero without prefix), size (decimal, right-aligned in 6 columns), type / binding / visibility in brief form, name."""
    hv = b"0000000000000000" if value == 0 else b"0x" + (b"%x" % value).rjust(14, b"0")
    return b"%d:\t" % idx + hv + b" " + (b"%d" % size).rjust(6) + b" " + t + b"\t" + b + b"\t" + v + b"\t" + name


def elfsym(v):
    p = v.get("props")
    if not p or len(p) != 3 or any(x["t"] != "c" for x in p):
        raise Unrenderable("symbol")
    return elfsym_line(v["idx"], int(v["value"]), int(v["size"]), *[x["b"].encode("latin-1") for x in p], bytes.fromhex(v["name"]))


def render(v):
    """The top-level (full) rendering of one yielded value; None if this oracle does not predict it."""
    try:
        t = v["t"]
        if t == "c":
            return v["f"].encode("latin-1")
        if t == "s":
            return bytes.fromhex(v["v"])
        if t == "die":
            a = v.get("attrs")
            if a is None or any(x["t"] == "err" for x in a):
                return None
            return b"[%x]\t" % v["o"] + label(v) + b"".join(b"\n\t" + attr(x, b"\n\t\t") for x in a)
        if t == "at":
            return attr(v, b"\n\t")
        if t in ("q", "dw", "cu", "lle", "llo", "as"):
            return brief(v)
        if t == "sym":
            return elfsym(v)
        return None
    except Unrenderable:
        return None


def expected(d, flags, query, files, args):
    """Returns dict(status, stdout(bytes) or None if not predictable, stderr_must, stderr_mustnot) or None to skip."""
    q, s, c, H, h = (f in flags for f in ("-q", "-s", "-c", "-H", "-h"))
    # argument facts (evaluated before the query is parsed: an error there is a top-level error)
    argvals = []
    for kind, text in args:
        f = facts_arg(d, kind, text)
        if f is None:
            return None
        if isinstance(f, tuple) and f[0] == "error":
            return dict(status=2, stdout=b"", err_must=["dwgrep:"], err_mustnot=[], why="argument error")
        argvals.append(f)
    # does the query compile?
    rp = d.req("parse q=%s" % common.hx(query))
    if rp["st"] == "reject":
        return dict(status=2, stdout=b"", err_must=["dwgrep:"], err_mustnot=[], why="compile error")
    opened = []
    err_must, err_mustnot = [], []
    for f in files:
        ro = d.req("open id=t path=%s" % common.hx(f))
        if ro["st"] == "ok":
            opened.append(f)
            d.req("close id=t")
        else:
            (err_mustnot if s else err_must).append(f)
    if files and not opened:
        return dict(status=1, stdout=b"", err_must=err_must, err_mustnot=err_mustnot, why="no file could be opened")
    dims = []
    if files:
        dims.append([("d:" + common.hx(f), f) for f in opened])
    dims += argvals
    iterations = 1
    for dim in dims:
        iterations *= len(dim)
    with_header = (iterations > 1 or H) and not h
    out = b""
    match = False
    errors = False
    predictable = True
    kinds = {}
    count_lines = []
    for combo in itertools.product(*dims):         # row-major: first dimension (files) slowest
        inp = ",".join(spec for spec, _ in combo)
        r = d.run(query, inp=inp, fuel=0, max=100000, timeout=120, deep=1)
        parts = []
        for i, (spec, htxt) in enumerate(combo):
            if (i == 0 and files) or len(dims[i]) > 1:
                parts.append(htxt)
        header = (",".join(parts) if parts else "<no-file>").encode("latin-1")
        nres = len(r["res"])
        if q:
            if nres:
                return dict(status=0, stdout=b"", err_must=[], err_mustnot=[], why="-q match")
            continue
        if nres:
            match = True
        if not c:
            for stk in r["res"]:
                if with_header:
                    out += header + b":\n"
                if len(stk) > 1:
                    out += b"---\n"
                for v in reversed(stk):
                    if v["t"] not in ("c", "s"):
                        kinds[v["t"]] = kinds.get(v["t"], 0) + 1
                    rv = render(v)
                    if rv is None:
                        predictable = False
                        rv = b"?"
                    out += rv + b"\n"
        if r["st"] == "error":
            errors = True
            if s:
                err_mustnot.append("dwgrep: " + header.decode("latin-1") + ":")
            else:
                err_must.append("dwgrep: " + header.decode("latin-1") + ":")
            if c:
                # whether a count is shown for a combination that raised is not specified: that line is optional,
                # the lines of all other combinations are still exact
                count_lines.append(((header + b":" if with_header else b""), None))
        elif c:
            out += (header + b":" if with_header else b"") + str(nres).encode() + b"\n"
            count_lines.append(((header + b":" if with_header else b""), str(nres).encode()))
    if q:
        return dict(status=1, stdout=b"", err_must=[], err_mustnot=[], why="-q no match")
    loose = None
    if c and errors:
        loose, out_exact = count_lines, None
    else:
        out_exact = out if predictable else None
    return dict(status=2 if errors else (0 if match else 1), stdout=out_exact, count_lines=loose, err_must=err_must, err_mustnot=err_mustnot, why="ran", kinds=kinds)


def job(payload):
    seed, count = payload
    d = common.get_driver()
    exe = os.path.join(common.VERIF, "build", common.VARIANT, "dwgrep", "dwgrep")
    env = dict(os.environ); env.update(common.ASAN_ENV)
    rng = random.Random(seed)
    out = {"n": 0, "stdout_compared": 0, "status": {}, "bad": [], "samples": [], "nontrivial": 0}
    for i in range(count):
        flags = [f for f in ("-q", "-s", "-c", "-H", "-h") if rng.random() < 0.3]
        nfiles = rng.choice([0, 0, 1, 1, 2, 3])
        files = [FILES[rng.choice(["v1", "v1", "v2", "v3", "v3", "v4", "v5", "nx", "dir", "txt"])] for _ in range(nfiles)]
        query = rng.choice(QUERIES_FILE if files else QUERIES_NOFILE)
        args = [rng.choice(ARGS) for _ in range(rng.choice([0, 0, 1, 1, 2]))]
        how = rng.choice(["-e", "-f", "pos"])
        if rng.random() < 0.08:
            # counting across combinations of which some raise after a few results and later ones do not
            flags = ["-c"] + [f for f in ("-s", "-H", "-h") if rng.random() < 0.25]
            files = []
            query = rng.choice([q for q in QUERIES_NOFILE if q.startswith("(|A|") and "==" in q])
            args = [rng.choice([("--a", "(1, 2, 3)"), ("--a", "(1, 2)"), ("--a", '("p", "q")'), ("--a", "(2, 1, 2)")])]
            if rng.random() < 0.3:
                args.append(rng.choice(ARGS))
        try:
            exp = expected(d, flags, query, files, args)
        except (common.DriverCrash, common.DriverTimeout) as ex:
            out["bad"].append(("library-crash-while-collecting-facts", dict(query=query, files=files, args=args))); continue
        if exp is None:
            continue
        argv = [exe] + flags
        for kind, text in args:
            argv += [kind, text]
        tmp = None
        if how == "-e":
            argv += ["-e", query] + files
        elif how == "-f":
            tmp = tempfile.NamedTemporaryFile(dir=common.RUN, delete=False, mode="w")
            tmp.write(query); tmp.close()
            argv += ["-f", tmp.name] + files
        else:
            if query == "" or query.startswith("-"):
                argv += ["-e", query] + files
            else:
                argv += [query] + files
        try:
            p = subprocess.run(argv, stdout=subprocess.PIPE, stderr=subprocess.PIPE, env=env, timeout=120, stdin=subprocess.DEVNULL)
        except subprocess.TimeoutExpired:
            out["bad"].append(("cli-hang", dict(argv=argv[1:]))); continue
        finally:
            if tmp:
                os.unlink(tmp.name)
        out["n"] += 1
        out["status"][str(exp["status"])] = out["status"].get(str(exp["status"]), 0) + 1
        if len(out["samples"]) < 2:
            out["samples"].append(dict(argv=argv[1:], expected_status=exp["status"], why=exp["why"]))
        err = p.stderr.decode("latin-1")
        w = dict(argv=argv[1:], why=exp["why"])
        cls = "flags=%s files=%d args=%d" % ("".join(sorted(f[1] for f in flags)) or "-", len(files), len(args))
        if p.returncode not in (0, 1, 2):
            kind, key = common.classify_report(err, p.returncode)
            out["bad"].append(("cli-crash:" + key, dict(w, rc=p.returncode, stderr=err[-1500:]))); continue
        if p.returncode != exp["status"]:
            out["bad"].append(("exit-status:%s:%s" % (exp["why"], flagkey(flags)), dict(w, got=p.returncode, want=exp["status"], stderr=err[-300:])))
        if "-q" in flags and p.stdout:
            out["bad"].append(("stdout-not-empty-under--q:%s" % flagkey(flags), dict(w, stdout=p.stdout[:200].decode("latin-1"))))
        elif exp["stdout"] is not None:
            out["stdout_compared"] += 1
            for k, n in exp.get("kinds", {}).items():
                out["kind_" + k] = out.get("kind_" + k, 0) + n
            if exp["stdout"]:
                out["nontrivial"] += 1
            if p.stdout != exp["stdout"]:
                out["bad"].append(("stdout-differs:%s:%s" % (exp["why"], flagkey(flags)), dict(w, got=p.stdout[:600].decode("latin-1"), want=exp["stdout"][:600].decode("latin-1"))))
        if exp.get("count_lines") is not None and "-q" not in flags:
            # -c with some combination that raised: every other combination's count line, in order, exactly
            got = p.stdout.split(b"\n")
            if got and got[-1] == b"":
                got.pop()
            gi = 0
            ok = True
            for pfx, cnt in exp["count_lines"]:
                if cnt is None:
                    if gi < len(got) and got[gi].startswith(pfx) and got[gi][len(pfx):].isdigit() and (pfx or len(exp["count_lines"]) == 1):
                        gi += 1          # shown: any number
                    continue
                if gi >= len(got) or got[gi] != pfx + cnt:
                    ok = False; break
                gi += 1
            out["count_lines_compared"] = out.get("count_lines_compared", 0) + 1
            if not ok or gi != len(got):
                out["bad"].append(("count-lines-differ-next-to-a-combination-that-raised:%s" % flagkey(flags),
                                   dict(w, got=p.stdout[:400].decode("latin-1"), want=[(a.decode("latin-1"), b.decode() if b else "(optional)") for a, b in exp["count_lines"]])))
        for m in exp["err_must"]:
            if m not in err:
                out["bad"].append(("stderr-lacks-diagnostic:%s" % flagkey(flags), dict(w, missing=m, stderr=err[-400:])))
        for m in exp["err_mustnot"]:
            if m in err:
                out["bad"].append(("stderr-has-driver-message-under--s", dict(w, present=m, stderr=err[-400:])))
    st = out.pop("status")
    for k, v in st.items():
        out["status_" + k] = v
    out["bad"] = out["bad"][:40]
    return out


def flagkey(flags):
    return "".join(sorted(f[1] for f in flags)) or "none"


def run(chk):
    quick = chk.tier == "quick"
    pool = common.Pool()
    tot, ctx, samples = {}, {}, []
    n = 1600 if quick else 40000
    zcheck.consume(chk, pool.map(job, [(chk.seed * 179424673 + i, 50) for i in range(n // 50)]), tot, ctx, samples, "C19")
    pool.finish()
    chk.cov.update({
        "evaluations": tot.get("n", 0),
        "distinct_nontrivial": tot.get("nontrivial", 0),
        "rule": "one evaluation = one dwgrep invocation whose exit status / stdout / stderr were predicted from library facts; non-trivial = invocations with a non-empty predicted stdout",
        "stdout_compared_byte_for_byte": tot.get("stdout_compared", 0), "count_listings_next_to_a_raising_combination_compared": tot.get("count_lines_compared", 0),
        "printed_values_compared_by_type_other_than_int_and_string": {k[5:]: v for k, v in tot.items() if k.startswith("kind_")},
        "invocations_by_expected_status": {k[7:]: v for k, v in tot.items() if k.startswith("status_")},
        "flag_sets": "random subsets of -q -s -c -H -h (32 subsets)", "query_sources": ["-e", "-f", "positional"],
        "queries": len(QUERIES_FILE) + len(QUERIES_NOFILE), "argument_forms": len(ARGS), "file_kinds": sorted(FILES),
        "samples": samples[:6],
    })
    chk.assumptions += ["under -c the count line of a combination whose execution raised is optional and may carry any number; the lines of all other combinations are exact", "records are predicted for integers, strings, sequences, DIEs, attributes, units, location expressions/operations, address sets, ELF symbols and the Dwarf value; abbreviation values are not rendered by this oracle"]
    if tot.get("n", 0) < 500 or tot.get("stdout_compared", 0) < 200:
        chk.inconc("too few invocations")


def replay(path):
    w = json.load(open(path))
    print(json.dumps(w, indent=1)[:4000])
    return 0
