"""C03 -- lexical name resolution.

Monitors: O1 scoping model on binder-heavy generated programs (nested binders of
all five kinds, shadowing incl. names shadowing builtins, multi-yield let
bodies, blocks capturing up-values); O2 alpha-renaming of every bound identifier;
O2 block inlining ({B} apply == B in a scope); expected compile-time errors
(unbound read, read moved out of its scope, rebinding) naming the identifier."""
import json, random, re
from vf import common, zast, zgen, zmodel as M, zcmp, zcheck


def rename(n, mp):
    """Consistently rename bound identifiers (names that are not builtin words)."""
    k = n[0]
    def R(x): return mp.get(x, x)
    if k in ("cat", "alt", "or"):
        return (k, [rename(c, mp) for c in n[1]])
    if k == "read":
        return ("read", R(n[1]))
    if k == "word":
        return n
    if k in ("cap", "paren", "block"):
        return (k, tuple(R(i) for i in n[1]), rename(n[2], mp))
    if k == "let":
        return (k, tuple(R(i) for i in n[1]), rename(n[2], mp))
    if k == "sub":
        return (k, n[1], tuple(R(i) for i in n[2]), rename(n[3], mp))
    if k == "infix":
        return (k, rename(n[1], mp), n[2], rename(n[3], mp))
    if k == "if":
        return (k, rename(n[1], mp), rename(n[2], mp), rename(n[3], mp))
    if k == "close":
        return (k, n[1], rename(n[2], mp))
    if k == "str":
        return (k, [p if isinstance(p, (bytes, bytearray)) or p[0] != "splice" else ("splice", rename(p[1], mp)) for p in n[1]])
    return n


def bound_names(n):
    s = set()
    for x in zast.walk(n):
        if x[0] in ("cap", "paren", "block", "let"):
            s |= set(x[1])
        elif x[0] == "sub":
            s |= set(x[2])
    return s


def inline_blocks(n):
    """{B} apply  ->  (|| B)-like scope: a one-branch... we use ?-free form: an ALT needs 2 branches,
    so the scope is made with an id-less capture-free construct: `if ?() then (B) else (B)`."""
    k = n[0]
    if k == "cat":
        out = []
        i = 0
        ch = n[1]
        changed = False
        while i < len(ch):
            if i + 1 < len(ch) and ch[i][0] == "block" and not ch[i][1] and ch[i + 1] == ("word", "apply"):
                body = ch[i][2]
                out.append(("if", ("sub", True, (), ("cat", [])), body, body))
                i += 2
                changed = True
            else:
                out.append(ch[i]); i += 1
        return ("cat", out), changed
    return n, False


def nested_blocks(rng):
    """Blocks nested 2-4 deep; every level reads a random subset of the outer names, some before and some after the
    inner block is created, some only in the innermost block (up-value ids are allocated per block in order of first use)."""
    names = rng.sample(["Z", "C", "A", "M", "B", "Q", "Y", "D"], rng.randint(2, 5))
    lets = [("let", (n,), rng.choice([("int", 10 + i, "dec"), ("str", [("v%d" % i).encode()]), ("cap", (), ("int", i, "dec"))])) for i, n in enumerate(names)]

    counter = [0]

    def level(k):
        items = []
        for n in rng.sample(names, rng.randint(0, len(names))):
            items.append(("read", n))
        if k > 0:
            inner = ("block", (), level(k - 1))
            how = rng.random()
            if how < 0.5:
                items.insert(rng.randint(0, len(items)), ("cat", [inner, ("word", "apply")]))
            elif how < 0.8:
                nm = "Blk%d" % k
                items.insert(rng.randint(0, len(items)), ("paren", (), ("cat", [("let", (nm,), inner), ("read", nm)])))
            else:
                # created here, applied twice
                nm = "Blk%d" % k
                items.insert(rng.randint(0, len(items)), ("paren", (), ("cat", [("let", (nm,), inner), ("read", nm), ("word", "drop"), ("read", nm)])))
        if not items:
            items = [("int", 0, "dec")]
        body = ("alt", items) if len(items) > 1 else items[0]
        # this level may rebind names that are also visible from outside (by let, or as a parameter of the block it is):
        # its own reads AND the blocks nested in it must then see the new value, the levels outside the old one
        shadow = []
        if rng.random() < 0.45:
            for n in rng.sample(names, rng.randint(1, min(2, len(names)))):
                counter[0] += 1
                shadow.append(("let", (n,), rng.choice([("int", 100 + counter[0], "dec"), ("str", [("w%d" % counter[0]).encode()])])))
        if shadow and rng.random() < 0.3:
            # as a scope parameter instead of a let
            first = shadow.pop(0)
            return ("cap", (), ("cat", [first[2], ("paren", first[1], ("cat", shadow + [body]))]))
        return ("cap", (), ("cat", shadow + [body]) if shadow else body)
    prog = ("cat", lets + [("block", (), level(rng.randint(1, 3))), ("word", "apply")])
    if rng.random() < 0.4:
        # several inputs reach the same nested blocks
        prog = ("cat", [("alt", [("int", 1, "dec"), ("int", 2, "dec")]), prog])
    return prog


def infix_binders(rng):
    """Operands of an infix assertion are scopes of their own: a name bound in one operand shadows an outer one there and
    only there -- the other operand, and whatever follows the assertion, still read the outer binding."""
    I = lambda v: ("int", v, "dec")
    nm, other = rng.sample(["A", "B", "Q", "Zed"], 2)
    v0, v1 = rng.sample([1, 2, 3, 5, 7], 2)
    inner = ("cat", [("let", (nm,), rng.choice([I(v1), ("alt", [I(v1), I(v0)]), ("cat", [I(v1), I(1), ("word", "add")])])), ("read", nm)])
    outer_read = rng.choice([("read", nm), ("cat", [("read", nm), I(0), ("word", "add")])])
    op = rng.choice(["==", "!=", "<", ">", "<=", ">="])
    k = rng.random()
    if k < 0.35:
        ass = ("infix", inner, op, outer_read)                 # left binds, right reads the outer one
    elif k < 0.7:
        ass = ("infix", outer_read, op, inner)                 # right binds, left reads the outer one
    elif k < 0.85:
        ass = ("infix", inner, op, inner)                      # both bind the same name: two scopes, no rebinding
    else:
        ass = ("infix", ("cat", [("let", (other,), I(v1)), ("read", other)]), op, inner)
    body = [("let", (nm,), rng.choice([I(v0), ("alt", [I(v0), I(v1)])])), ass, ("read", nm)]
    if rng.random() < 0.5:
        return ("cat", [rng.choice([I(v0), I(v1), ("alt", [I(v0), I(v1)])])] + body)
    return ("cat", body)


def job(payload):
    seed, count, opts = payload
    d = common.get_driver()
    rng = random.Random(seed)
    out = {"n": 0, "o1": 0, "o1_skipped": 0, "alpha": 0, "inline": 0, "neg": 0, "neg_rejected": 0, "binders": 0,
           "bad": [], "ctx": {}, "samples": [], "nontrivial": 0}
    for i in range(count):
        closures = rng.random() < 0.5
        g = zgen.Gen(rng, maxdepth=rng.randint(2, 5), err_rate=0.02, closures=closures, shadow=True)
        prog = g.program([])
        if rng.random() < 0.3:
            prog = nested_blocks(rng)
        elif rng.random() < 0.12:
            prog = infix_binders(rng)
        elif closures and rng.random() < 0.16:
            # (only where the binders wrapped around the program below never shadow a builtin: `add` rebound to a number makes the
            # closure in a twin program a legitimately endless one)
            # equal stacks in a row that differ only in what a name is bound to (C01's twins): conditions, assertions and closure bodies read it
            from vf.props import c01
            tprog, tstacks = c01.twin_case(rng, {"maxdepth": 3})
            prog = ("cat", [("alt", [("cat", list(st)) for st in tstacks]), tprog])
        # make it binder heavy: wrap in extra binders around the program
        k = rng.random()
        if k < 0.3:
            nm = g.newname({})
            prog = ("cat", [("let", (nm,), ("alt", [g.lit_int(), g.lit_str(), g.lit_int()])), prog, ("read", nm)])
        elif k < 0.5:
            nm = g.newname({})
            prog = ("cat", [g.lit_int(), ("paren", (nm,), ("cat", [prog, ("read", nm)]))])
        nb = len(bound_names(prog))
        if nb == 0:
            continue
        out["n"] += 1
        out["binders"] += nb
        if nb >= 2:
            out["nontrivial"] += 1
        zcheck.tally_ctx(out, prog)
        txt = zast.text(prog)
        if len(out["samples"]) < 2:
            out["samples"].append(txt)
        bad = []
        try:
            one_case(d, rng, prog, txt, out, bad)
        except common.DriverCrash as e:
            bad.append(("crash:" + getattr(e, "key", e.kind), dict(text=txt, request=e.request[:1500], report=e.report[-3000:])))
        except common.DriverTimeout as e:
            bad.append(("hang", dict(text=txt, request=e.request[:1500])))
        for what, detail in bad:
            if len(out["bad"]) < 40:
                out["bad"].append((what, detail))
    return out


def one_case(d, rng, prog, txt, out, bad):
    if True:
        why, m, r = zcheck.o1(d, prog, txt)
        zcheck.basic_events(r, txt, bad)
        if why is None:
            out["o1_skipped"] += 1
        else:
            out["o1"] += 1
            if why:
                bad.append(("O1:" + why, dict(text=txt, **zcheck.describe(m, r))))
        # alpha renaming
        names = sorted(x for x in bound_names(prog) if x not in M.WORDS)
        if names and not zcheck.skipped(r):
            fresh = ["R%d_%s" % (j, rng.choice("abc")) for j in range(len(names))]
            rng.shuffle(fresh)
            mp = dict(zip(names, fresh))
            p2 = rename(prog, mp)
            t2 = zast.text(p2)
            r2 = d.run(t2, fuel=zcheck.FUEL, max=zcheck.MAXRES)
            w = zcheck.same_outcome(r, r2, ordered=True)
            if w is not None:
                out["alpha"] += 1
                if w:
                    bad.append(("O2:alpha-renaming:" + w, dict(text=txt, renamed=t2)))
        # block inlining
        p3, changed = inline_blocks(prog)
        if changed and not zcheck.skipped(r):
            t3 = zast.text(p3)
            r3 = d.run(t3, fuel=zcheck.FUEL, max=zcheck.MAXRES)
            w = zcheck.same_outcome(r, r3, ordered=False)
            if w is not None:
                out["inline"] += 1
                if w:
                    bad.append(("O2:block-inlining:" + w, dict(text=txt, inlined=t3)))
        # expected compile errors
        try:
            M.static_check(prog)
            prog_ok = True
        except M.CompileError:
            prog_ok = False
        for variant, ident in (negatives(prog, rng) if prog_ok else []):
            out["neg"] += 1
            t4 = zast.text(variant)
            try:
                M.static_check(variant)
                continue   # the model accepts this variant after all (name bound in an outer scope)
            except M.CompileError:
                pass
            r4 = d.run(t4, fuel=zcheck.FUEL, max=zcheck.MAXRES)
            out["neg_rejected"] += 1
            if r4["st"] != "reject":
                bad.append(("compile-error-missing", dict(text=t4, ident=ident, st=r4["st"])))
            elif ident not in r4["msg"]:
                bad.append(("compile-error-does-not-name-identifier", dict(text=t4, ident=ident, msg=r4["msg"])))


def negatives(prog, rng):
    """Variants that must be rejected at compile time, with the identifier to be named."""
    out = []
    # (a) read of a never-bound name
    nm = "Zz%d" % rng.randint(0, 99)
    out.append((("cat", [prog, ("read", nm)]), nm))
    # (b) read of a name right after the scope-forming construct that binds it
    for x in zast.walk(prog):
        k = x[0]
        ids = x[1] if k in ("cap", "block") else x[2] if k == "sub" else x[1] if (k == "paren" and x[1]) else ()
        if ids and ids[0] not in M.WORDS:
            out.append((("cat", [("alt", [prog, prog]), ("read", ids[0])]), ids[0]))
            break
    # names bound by let inside an ALT branch / sub-expression must not be visible after it
    lets = [x for x in zast.walk(prog) if x[0] == "let" and x[1][0] not in M.WORDS]
    if lets:
        l = rng.choice(lets)
        # a self-contained binder of the same (first) identifier
        l = ("let", (l[1][0],), rng.choice([("int", 1, "dec"), ("alt", [("int", 1, "dec"), ("str", [b"a"])]), ("elist",)]))
        out.append((("cat", [("sub", True, (), ("cat", [l])), ("read", l[1][0])]), l[1][0]))
        out.append((("cat", [("alt", [("cat", [l]), ("cat", [l])]), ("read", l[1][0])]), l[1][0]))
        out.append((("cat", [("or", [("cat", [l]), ("cat", [l])]), ("read", l[1][0])]), l[1][0]))
        out.append((("cat", [("cap", (), ("cat", [l, ("int", 1, "dec")])), ("read", l[1][0])]), l[1][0]))
        out.append((("cat", [("if", ("cat", []), ("cat", [l]), ("cat", [l])), ("read", l[1][0])]), l[1][0]))
        out.append((("cat", [("close", "?", ("paren", (), ("cat", [l]))), ("read", l[1][0])]), l[1][0]))
        out.append((("cat", [("close", "*", ("paren", (), ("cat", [l]))), ("read", l[1][0])]), l[1][0]))
        out.append((("cat", [("block", (), ("cat", [l])), ("word", "drop"), ("read", l[1][0])]), l[1][0]))
        # ... nor in the other operand of an infix assertion, nor after it
        lr = ("cat", [l, ("read", l[1][0])])
        out.append((("infix", lr, "==", ("read", l[1][0])), l[1][0]))
        out.append((("infix", ("read", l[1][0]), "==", lr), l[1][0]))
        out.append((("cat", [("infix", lr, "==", lr), ("read", l[1][0])]), l[1][0]))
        # (c) rebinding in one scope
        out.append((("cat", [l, l]), l[1][0]))
        out.append((("paren", (l[1][0],), ("cat", [l])), l[1][0]))
    return out


def job_storm(payload):
    """Thousands of block applications that are ABANDONED after their first result (inside ?( ), as an infix operand, as an `if` condition;
    the block could yield more) in one process -- and then blocks applied and read through names must still behave as their bodies do."""
    seed, = payload
    d = common.get_driver()
    rng = random.Random(seed)
    out = {"storm_applications": 0, "n": 0, "o1": 0, "o1_skipped": 0, "alpha": 0, "inline": 0, "neg": 0, "neg_rejected": 0, "binders": 0, "bad": [], "ctx": {}, "samples": [], "nontrivial": 0}
    ten = "(0, 1, 2, 3, 4, 5, 6, 7, 8, 9)"
    storms = ["let F := {(1, 2)}; %s %s %s %s ?(F) drop drop drop" % (ten, ten, ten, ten),
              "let F := {(1, 2)}; %s %s %s %s (F == 1) drop drop drop" % (ten, ten, ten, ten),
              "let F := {(1, 2)}; %s %s %s %s (if ?(F 2 ?eq) then 1 else 2) drop drop drop drop" % (ten, ten, ten, ten),
              "%s %s %s %s (|A B C D| {(D, A)} (|G| ?(G) A))" % (ten, ten, ten, ten)]
    try:
        for t in rng.sample(storms, 2):
            r = d.run(t, fuel=0, max=20000, timeout=300)
            out["storm_applications"] += 10000
            if r["st"] != "done" or len(r["res"]) != 10000:
                out["bad"].append(("many-abandoned-block-applications:query-fails-or-loses-results", dict(text=t[:200], st=r["st"], msg=r.get("msg"), results=len(r.get("res", [])))))
        for i in range(12):
            prog = nested_blocks(rng)
            txt = zast.text(prog)
            out["n"] += 1
            bad = []
            one_case(d, rng, prog, txt, out, bad)
            out["bad"] += [("after-many-abandoned-applications:" + k, w) for k, w in bad[:3]]
    except common.DriverCrash as ex:
        out["bad"].append(("crash:" + getattr(ex, "key", ex.kind), dict(report=ex.report[-3000:])))
    except common.DriverTimeout as ex:
        out["bad"].append(("hang", dict(request=ex.request[:300])))
    out["bad"] = out["bad"][:20]
    return out


def run(chk):
    quick = chk.tier == "quick"
    pool = common.Pool()
    n = 16000 if quick else 320000
    per = 250
    jobs = [(chk.seed * 7919 + i, per, {}) for i in range(n // per)]
    tot, ctx, samples = {}, {}, []
    zcheck.consume(chk, pool.map(job, jobs), tot, ctx, samples, "C03 workload")
    zcheck.consume(chk, pool.map(job_storm, [(chk.seed * 1299709 + i,) for i in range(4 if quick else 48)]), tot, ctx, samples, "C03 abandoned applications")
    hs = pool.hook_stats()
    pool.finish()
    chk.cov.update({
        "evaluations": tot.get("n", 0),
        "distinct_nontrivial": tot.get("nontrivial", 0),
        "rule": "one evaluation = one generated program containing at least one binder, checked by O1 + alpha-renaming + block inlining + "
                "negative variants; non-trivial = at least two bound identifiers",
        "bound_identifiers_total": tot.get("binders", 0),
        "block_applications_abandoned_after_their_first_result_before_the_follow_up_programs": tot.get("storm_applications", 0),
        "O1_model_comparisons": tot.get("o1", 0), "O1_skipped_indeterminate": tot.get("o1_skipped", 0),
        "alpha_renamings_compared": tot.get("alpha", 0), "block_inlinings_compared": tot.get("inline", 0),
        "negative_variants_generated": tot.get("neg", 0), "negative_variants_expected_rejected": tot.get("neg_rejected", 0),
        "nesting_matrix_nonempty_cells": len(ctx), "nesting_matrix": {k: ctx[k] for k in sorted(ctx)},
        "state_types_seen": sorted((hs.get("state_types") or {}).keys()),
        "samples": samples,
    })
    chk.assumptions += ["scoping rules as listed in doc/syntax.rst 'Name binding'; a name bound in a %( %) splice leaks (plain context) and is not generated",
                        "reading a name bound to a block applies it (tests test_let / test_assert_block)"]
    if tot.get("o1", 0) < 1000 or tot.get("neg_rejected", 0) < 1000:
        chk.inconc("too few comparisons")


def replay(path):
    w = json.load(open(path))
    print(json.dumps(w, indent=1)[:3000])
    return 0
