#!/usr/bin/env python3
"""Entry point: check.py <Cxx> [--tier quick|thorough] [--replay file]"""
import importlib, os, sys, time
sys.path.insert(0, os.path.dirname(os.path.dirname(os.path.abspath(__file__))))
from vf import common, build


def main(argv):
    pid = argv[1]
    tier, seed = common.tier_and_seed(argv)
    mod = importlib.import_module("vf.props." + pid.lower())
    variants = getattr(mod, "VARIANTS", [common.VARIANT])
    if "--no-build" not in argv:
        for v in variants:
            build.build(v)
    if "--replay" in argv:
        return mod.replay(argv[argv.index("--replay") + 1])
    chk = common.Check(pid, tier, seed, getattr(mod, "LEVEL", "exploration"))
    try:
        mod.run(chk)
    except SystemExit:
        raise
    except Exception:
        import traceback
        traceback.print_exc()
        chk.inconc("harness exception")
    return chk.finish()


if __name__ == "__main__":
    sys.exit(main(sys.argv))
