"""Exhaustive enumeration of small Zwerg programs over a reduced alphabet.

Z(k): programs of net stack effect 0 on a stack whose TOS is a small integer,
built from k constructor applications.  Used with the multi-feed wrapper
`(0, 1, 2) Z` so that every construct nested in every other one sees more than
one outer stack."""
import itertools

LEAVES = [
    ("cat", [("int", 1, "dec"), ("word", "add")]),
    ("infix", ("cat", []), "<", ("int", 2, "dec")),
    ("infix", ("cat", []), "==", ("int", 1, "dec")),
]

GUARD = ("infix", ("cat", []), "<", ("int", 4, "dec"))


def cat(a, b):
    xs = (a[1] if a[0] == "cat" else [a]) + (b[1] if b[0] == "cat" else [b])
    return ("cat", xs)


def combine1(z, full):
    """Unary constructors."""
    yield ("sub", True, (), z)
    yield ("sub", False, (), z)
    yield ("close", "?", z)
    yield ("close", "*", ("cat", [z, GUARD]))
    yield ("close", "+", ("cat", [z, GUARD]))
    # let binds the sub-expression's TOS, read replaces TOS via drop
    yield ("paren", (), ("cat", [("let", ("X",), z), ("word", "drop"), ("read", "X")]))
    yield ("cat", [("cap", (), z), ("word", "elem"), ("word", "swap"), ("word", "drop")])
    if full:
        yield ("cat", [("str", [("splice", z)]), ("word", "length")])
        yield ("cat", [("block", (), z), ("word", "apply")])
        yield ("paren", ("Y",), ("cat", [("read", "Y"), z]))


def combine2(a, b):
    yield cat(a, b)
    yield ("alt", [a, b])
    yield ("or", [a, b])


def combine3(a, b, c):
    yield ("if", a, b, c)


def enum(maxsize, full=True, leaves=None):
    """dict size -> list of programs with exactly that many constructor nodes."""
    Z = {1: list(leaves or LEAVES)}
    for k in range(2, maxsize + 1):
        out = []
        for z in Z[k - 1]:
            out += list(combine1(z, full))
        for i in range(1, k - 1):
            j = k - 1 - i
            if j < 1:
                continue
            for a in Z[i]:
                for b in Z[j]:
                    out += list(combine2(a, b))
        if k >= 4:
            for i in range(1, k - 2):
                for j in range(1, k - 1 - i):
                    l = k - 1 - i - j
                    if l < 1:
                        continue
                    for a in Z[i]:
                        for b in Z[j]:
                            for c in Z[l]:
                                out += list(combine3(a, b, c))
        Z[k] = out
    return Z
