"""G4 -- compiler-produced objects, built at check time from the repository's test sources
and /verif/corpus, with gcc and clang at several DWARF versions."""
import glob, os, subprocess
from vf import common

OUT = os.path.join(common.RUN, "corpus")


def sources():
    t = os.path.join(common.REPO, "tests")
    src = sorted(glob.glob(os.path.join(t, "*.c")) + glob.glob(os.path.join(t, "*.cc")))
    src += sorted(glob.glob(os.path.join(common.VERIF, "corpus", "*.c")) + glob.glob(os.path.join(common.VERIF, "corpus", "*.cc")))
    return src


def build(quick=True):
    """Returns list of (path, linked?) of freshly compiled objects."""
    os.makedirs(OUT, exist_ok=True)
    out = []
    jobs = []
    combos = [("gcc", 4), ("gcc", 5), ("clang-14", 4), ("clang-14", 5)] if quick else [(c, v) for c in ("gcc", "clang-14") for v in (2, 3, 4, 5)]
    for s in sources():
        base = os.path.splitext(os.path.basename(s))[0]
        cxx = s.endswith(".cc")
        for cc, v in combos:
            comp = cc if not cxx else {"gcc": "g++", "clang-14": "clang++-14"}[cc]
            o = os.path.join(OUT, "%s.%s.dw%d.o" % (base, cc, v))
            so = os.path.join(OUT, "%s.%s.dw%d.so" % (base, cc, v))
            for target, extra in ((o, ["-c"]), (so, ["-shared", "-fPIC"])):
                if not os.path.exists(target) or os.path.getmtime(target) < os.path.getmtime(s):
                    jobs.append((target, [comp, "-g", "-gdwarf-%d" % v, "-O1", "-w"] + extra + ["-o", target, s]))
                out.append((target, target.endswith(".so")))
    procs = []
    for target, cmd in jobs:
        procs.append((target, subprocess.Popen(cmd, stdout=subprocess.DEVNULL, stderr=subprocess.DEVNULL)))
        if len(procs) >= 16:
            for t, p in procs:
                p.wait()
            procs = []
    for t, p in procs:
        p.wait()
    return [(p, l) for p, l in out if os.path.exists(p)]
