"""Shared machinery of the runtime monitors: driver processes, worker pool,
verdicts, evidence, known-findings matching."""
import json, os, select, subprocess, sys, time, random, hashlib, signal, tempfile, re, shutil, traceback
import multiprocessing as mp

VERIF = os.path.dirname(os.path.dirname(os.path.abspath(__file__)))
REPO = os.environ.get("VERIF_REPO", "/repo")
RUN = os.path.join(VERIF, "run")
# the build variant the monitors run on; "cov" (vf/covreport.py) measures what the workloads reach, its verdicts are not used
VARIANT = os.environ.get("VERIF_VARIANT", "asan")
NCPU = int(os.environ.get("VERIF_JOBS", "16"))

ASAN_ENV = {
    "ASAN_OPTIONS": "abort_on_error=1:detect_leaks=0:hard_rss_limit_mb=3072:allocator_may_return_null=0:"
                    "handle_abort=1:print_summary=1:detect_stack_use_after_return=0",
    "UBSAN_OPTIONS": "print_stacktrace=1:halt_on_error=1:abort_on_error=1",
    "LSAN_OPTIONS": "print_suppressions=0",
}


def hx(b):
    if isinstance(b, str):
        b = b.encode("latin-1")     # program texts are byte strings; chr(n) stands for byte n
    return b.hex()


class DriverCrash(Exception):
    def __init__(self, kind, report, request):
        Exception.__init__(self, kind)
        self.kind, self.report, self.request = kind, report, request


class DriverTimeout(Exception):
    def __init__(self, request):
        Exception.__init__(self, "timeout")
        self.request = request


def classify_report(text, rc):
    """What killed the driver?  Returns (kind, short key)."""
    m = re.search(r"DWGREP_VERIF (\w+): ([^\n]*?) type=(\S*)", text)
    if m:
        return "hook", "hook:%s:%s:%s" % (m.group(1), m.group(2), m.group(3))
    m = re.search(r"runtime error: ([^\n]*)", text)
    if m:
        loc = re.search(r"(\S+\.(?:cc|hh|h|yy|ll)):(\d+)(?::\d+)?: runtime error", text)
        return "ubsan", "ubsan:%s:%s" % (loc.group(1).split("/")[-1] if loc else "?", re.sub(r"0x[0-9a-f]+|-?\d+", "N", m.group(1))[:80])
    m = re.search(r"ERROR: (AddressSanitizer|LeakSanitizer): ([^\n]*)", text)
    if m:
        what = m.group(2).split(" on ")[0].split(" (")[0]
        fr = innermost_repo_frame(text)
        return "asan", "asan:%s:%s" % (what.strip()[:40], fr)
    m = re.search(r"([\w./-]+):(\d+): ([^\n]*): Assertion `([^\n]*)' failed", text)
    if m:
        return "assert", "assert:%s:%s" % (m.group(1).split("/")[-1], m.group(4)[:80])
    if "terminate called" in text:
        m = re.search(r"what\(\):\s*([^\n]*)", text)
        return "terminate", "terminate:%s" % (m.group(1)[:60] if m else "?")
    if "hard rss limit exhausted" in text or "out of memory" in text.lower():
        return "oom", "oom"
    return "crash", "crash:rc=%s" % rc


def innermost_repo_frame(text):
    for m in re.finditer(r"#\d+ 0x[0-9a-f]+ in (\S+) (\S+?):(\d+)", text):
        path = m.group(2)
        if "/libzwerg/" in path or "/dwgrep/" in path or path.startswith(REPO):
            return "%s:%s" % (os.path.basename(path), m.group(1)[:60])
    return "?"


class Driver:
    """One zwdrv child.  Not thread safe; one per worker process."""

    def __init__(self, variant=None, leaks=False, extra_env=None, wrapper=None, slow_unwind=False):
        self.variant, self.leaks, self.extra_env, self.wrapper = variant or VARIANT, leaks, extra_env or {}, wrapper
        self.slow_unwind = slow_unwind
        self.p = None
        self.errf = None
        self.gen = 0
        self.start()

    def start(self):
        self.gen += 1
        exe = os.path.join(VERIF, "build", self.variant, "drv", "zwdrv")
        env = dict(os.environ)
        env.update(ASAN_ENV)
        if self.leaks:
            env["ASAN_OPTIONS"] = env["ASAN_OPTIONS"].replace("detect_leaks=0", "detect_leaks=1") + ":malloc_context_size=80" + \
                (":fast_unwind_on_malloc=0" if self.slow_unwind else "")
        env.update(self.extra_env)
        os.makedirs(RUN, exist_ok=True)
        self.errf = tempfile.TemporaryFile(dir=RUN)
        self._errpos = 0
        cmd = (self.wrapper or []) + [exe]
        self.p = subprocess.Popen(cmd, stdin=subprocess.PIPE, stdout=subprocess.PIPE, stderr=self.errf,
                                  env=env, bufsize=0)
        self.buf = b""

    def take_stderr(self):
        """stderr text produced since the previous call."""
        try:
            self.errf.seek(getattr(self, "_errpos", 0))
            data = self.errf.read()
            self._errpos = getattr(self, "_errpos", 0) + len(data)
            return data.decode("utf-8", "replace")
        except Exception:
            return ""

    def stderr_text(self):
        try:
            self.errf.seek(0)
            return self.errf.read().decode("utf-8", "replace")
        except Exception:
            return ""

    def kill(self):
        if self.p is not None:
            if self.variant == "cov":
                # let the process write its coverage counters
                try:
                    self.p.stdin.write(b"quit\n"); self.p.stdin.close()
                    self.p.wait(timeout=20)
                except Exception:
                    pass
            try:
                self.p.kill()
                self.p.wait()
            except Exception:
                pass
            self.p = None
        if self.errf is not None:
            self.errf.close()
            self.errf = None

    def close(self):
        """Orderly shutdown; returns (rc, stderr) -- LSan reports at exit land here."""
        if self.p is None:
            return 0, ""
        try:
            self.p.stdin.write(b"quit\n")
            self.p.stdin.close()
        except Exception:
            pass
        try:
            rc = self.p.wait(timeout=120)
        except subprocess.TimeoutExpired:
            self.p.kill()
            rc = self.p.wait()
        err = self.stderr_text()
        self.p = None
        self.errf.close()
        self.errf = None
        return rc, err

    def restart(self):
        self.kill()
        self.start()

    def req(self, line, timeout=30.0):
        """One request/reply.  A missing reply within TIMEOUT is retried ONCE in a fresh driver with four times
        the allowance when the request is self-contained (run / cmpmat / handle-free parse): a loaded machine
        must not produce a 'hang'.  Only the second miss raises DriverTimeout."""
        try:
            return self._req(line, timeout)
        except DriverTimeout:
            op = line.split(" ", 1)[0]
            if timeout >= 10 and op in ("run", "cmpmat", "voc", "stats") or (op == "parse" and " id=" not in line):
                return self._req(line, timeout * 4)
            raise

    def _req(self, line, timeout=30.0):
        if self.p is None:
            self.start()
        try:
            self.p.stdin.write(line.encode() + b"\n")
        except (BrokenPipeError, OSError):
            return self._crashed(line)
        deadline = time.time() + timeout
        fd = self.p.stdout.fileno()
        while b"\n" not in self.buf:
            left = deadline - time.time()
            if left <= 0:
                self.restart()
                raise DriverTimeout(line)
            r, _, _ = select.select([fd], [], [], min(left, 1.0))
            if r:
                chunk = os.read(fd, 1 << 16)
                if not chunk:
                    return self._crashed(line)
                self.buf += chunk
        out, _, self.buf = self.buf.partition(b"\n")
        try:
            return json.loads(out)
        except Exception:
            raise DriverCrash("protocol", out[:300].decode("utf-8", "replace"), line)

    def _crashed(self, line):
        try:
            rc = self.p.wait(timeout=60)
        except Exception:
            self.p.kill()
            rc = self.p.wait()
        text = self.stderr_text()
        self.p = None
        self.errf.close()
        self.errf = None
        self.start()
        kind, key = classify_report(text, rc)
        e = DriverCrash(kind, text[-6000:], line)
        e.key = key
        raise e

    # convenience -------------------------------------------------------------
    def run(self, q, inp="", max=100000, fuel=2000000, nosimp=False, timeout=30.0, **kw):
        line = "run q=%s in=%s max=%d fuel=%d" % (hx(q), inp, max, fuel)
        if nosimp:
            line += " nosimp=1"
        for k, v in kw.items():
            line += " %s=%s" % (k, v)
        return self.req(line, timeout)

    def stats(self):
        return self.req("stats")


_drv = None
_drv_args = None


def get_driver(**kw):
    """Per-process driver (created lazily in worker processes)."""
    global _drv, _drv_args
    if _drv is None or _drv_args != kw:
        if _drv is not None:
            _drv.kill()
        _drv = Driver(**kw)
        _drv_args = kw
    return _drv


def drop_driver():
    global _drv
    if _drv is not None:
        rc, err = _drv.close()
        _drv = None
        return rc, err
    return 0, ""


def _worker_call(args):
    fn, payload = args
    try:
        r = fn(payload)
        if isinstance(r, dict) and "_stats" not in r:
            r["_stats"] = job_stats()
        return r
    except DriverCrash as e:
        return {"crash": {"kind": e.kind, "key": getattr(e, "key", e.kind), "report": e.report, "request": e.request}}
    except DriverTimeout as e:
        return {"timeout": {"request": e.request}}
    except Exception:
        return {"harness_error": traceback.format_exc()}


class Pool:
    def __init__(self, n=NCPU):
        self.n = n
        self.pool = mp.get_context("fork").Pool(n)
        self.stats = {}   # (pid, driver generation) -> latest cumulative hook counters

    def map(self, fn, payloads, chunksize=1):
        for r in self.pool.imap_unordered(_worker_call, [(fn, p) for p in payloads], chunksize):
            if isinstance(r, dict) and "_stats" in r:
                k, v = r.pop("_stats")
                if v:
                    self.stats[tuple(k)] = v
            yield r

    def hook_stats(self):
        return merge_stats([{"stats": v} for v in self.stats.values()])

    def finish(self):
        self.pool.close()
        self.pool.join()


def job_stats():
    """Called by a job at its end: cumulative hook counters of this worker's driver."""
    d = _drv
    if d is None or d.p is None:
        return ((os.getpid(), 0), None)
    try:
        return ((os.getpid(), d.gen), d.stats())
    except Exception:
        return ((os.getpid(), d.gen), None)


def merge_stats(stats_list):
    tot = {}
    for s in stats_list:
        st = (s or {}).get("stats") or {}
        for k, v in st.items():
            if isinstance(v, bool):
                continue
            if isinstance(v, int):
                tot[k] = tot.get(k, 0) + v
            elif isinstance(v, list) and all(isinstance(x, int) for x in v):
                cur = tot.get(k, [0] * len(v))
                tot[k] = [a + b for a, b in zip(cur, v)]
            elif isinstance(v, dict) and k == "state_types":
                cur = tot.setdefault(k, {})
                for kk, vv in v.items():
                    cur[kk] = cur.get(kk, 0) + vv
    return tot


# ------------------------------------------------------------------ verdicts
class Check:
    """Collects violations / known findings / evidence for one property run."""

    def __init__(self, pid, tier, seed, level="exploration"):
        self.pid, self.tier, self.seed, self.level = pid, tier, seed, level
        self.t0 = time.time()
        self.violations = []      # (key, witness)
        self.known_hits = {}      # finding id -> count
        self.inconclusive = []
        self.cov = {"evaluations": 0, "distinct_nontrivial": 0, "rule": "", "samples": []}
        self.assumptions = []
        self.findings = load_findings(pid)
        self.rundir = os.path.join(RUN, pid)
        os.makedirs(self.rundir, exist_ok=True)
        import glob
        for old in glob.glob(os.path.join(self.rundir, "viol-%s-%d-*.json" % (tier, seed))):
            try:
                os.unlink(old)       # replay files of an earlier run with the same tier and seed
            except OSError:
                pass
        self._nviol = 0
        self.keyhist = {}
        self.max_report = 40

    def rng(self, salt=""):
        h = hashlib.sha256(("%s/%s/%s" % (self.pid, self.seed, salt)).encode()).digest()
        return random.Random(int.from_bytes(h[:8], "big"))

    def violation(self, key, witness):
        """KEY identifies the failing input/site; matched against known findings."""
        for f in self.findings:
            if f.get("status") == "open" and finding_matches(f, key, witness):
                self.known_hits[f["id"]] = self.known_hits.get(f["id"], 0) + 1
                return False
        self._nviol += 1
        self.keyhist[key] = self.keyhist.get(key, 0) + 1
        if self.keyhist[key] > 3:
            return True   # enough witnesses of this key written out
        if len(self.violations) < self.max_report:
            path = os.path.join(self.rundir, "viol-%s-%d-%d.json" % (self.tier, self.seed, self._nviol))
            with open(path, "w") as f:
                json.dump({"property": self.pid, "key": key, "seed": self.seed, "tier": self.tier,
                           "witness": witness}, f, indent=1, default=str)
            self.violations.append((key, path))
        return True

    def crash_violation(self, res, context):
        c = res["crash"]
        return self.violation(c["key"], {"what": "driver died: " + c["kind"], "context": context,
                                         "request": c["request"], "report": c["report"]})

    def inconc(self, what):
        self.inconclusive.append(what)

    def finish(self):
        wall = time.time() - self.t0
        for fid, n in sorted(self.known_hits.items()):
            f = [x for x in self.findings if x["id"] == fid][0]
            print("KNOWN-FINDING: property=%s %s (id=%s, seen %d times)" % (self.pid, f["what"], fid, n))
        ev = {"property_id": self.pid, "tier": self.tier, "seed": self.seed, "level": self.level,
              "coverage": self.cov, "assumptions": self.assumptions, "wall_s": round(wall, 2),
              "violations": self._nviol}
        self.cov["known_findings_matched"] = dict(self.known_hits)
        self.cov["inconclusive"] = self.inconclusive[:20]
        # only runs on the sanitizer build produce evidence; coverage-measurement runs (VERIF_VARIANT=cov) keep theirs apart
        evdir = os.path.join(VERIF, "evidence") if VARIANT == "asan" else os.path.join(RUN, "evidence-" + VARIANT)
        os.makedirs(evdir, exist_ok=True)
        with open(os.path.join(evdir, self.pid + ".json"), "w") as f:
            json.dump(ev, f, indent=1, default=str)
        for key, path in self.violations:
            print("VIOLATION property=%s replay=%s" % (self.pid, path))
            print("  key: %s" % key)
        if self._nviol > len(self.violations):
            print("  (+%d more violations not written out)" % (self._nviol - len(self.violations)))
        for k, n in sorted(self.keyhist.items(), key=lambda kv: -kv[1])[:40]:
            print("  %8d x %s" % (n, k))
        print("[%s %s seed=%d] evaluations=%d distinct_nontrivial=%d violations=%d known=%d inconclusive=%d wall=%.1fs" % (
            self.pid, self.tier, self.seed, self.cov.get("evaluations", 0), self.cov.get("distinct_nontrivial", 0),
            self._nviol, sum(self.known_hits.values()), len(self.inconclusive), wall))
        if self._nviol:
            return 1
        if self.inconclusive:
            for w in self.inconclusive[:10]:
                print("INCONCLUSIVE: %s" % w)
            return 2
        return 0


def parse_leaks(text):
    """LeakSanitizer report blocks -> list of (kind, bytes, objects, frames[(function, file:line)])."""
    out = []
    for m in re.finditer(r"(Direct|Indirect) leak of (\d+) byte\(s\) in (\d+) object\(s\) allocated from:\n((?:\s+#\d+ [^\n]*\n)+)", text):
        frames = []
        for fm in re.finditer(r"#\d+ 0x[0-9a-f]+ in (.*?) (\S+)$", m.group(4), re.M):
            frames.append((fm.group(1), fm.group(2)))
        out.append((m.group(1), int(m.group(2)), int(m.group(3)), frames))
    return out


def leak_signature(frames):
    """Stable identity of an allocation site: the repository functions on the stack, innermost first."""
    sig = []
    for fn, loc in frames:
        if "/libzwerg/" in loc or "/dwgrep/" in loc or "zwdrv+" in loc or loc.startswith("(") or "/repo/" in loc:
            name = re.sub(r"\(.*", "", fn)
            name = re.sub(r"<.*", "", name)
            if "zwdrv.cc" in loc or name in ("operator", "wrap", "capture_errors", "main", "parse_q", "op_run", "op_parse"):
                continue
            if not sig or sig[-1] != name:
                sig.append(name)
    return ">".join(sig[:6])


def load_findings(pid):
    path = os.path.join(VERIF, "known_findings.json")
    if not os.path.exists(path):
        return []
    with open(path) as f:
        data = json.load(f)
    return [x for x in data.get("findings", []) if x.get("property") == pid]


def finding_matches(f, key, witness):
    m = f.get("match", {})
    if "key" in m and m["key"] == key:
        return True
    if "key_re" in m and re.fullmatch(m["key_re"], key):
        return True
    return False


def tier_and_seed(argv):
    tier = os.environ.get("VERIF_TIER", "quick")
    if "--tier" in argv:
        tier = argv[argv.index("--tier") + 1]
    seed = int(os.environ.get("VERIF_SEED", "1") or "1")
    return tier, seed
