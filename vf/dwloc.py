"""Location expressions / lists for the forest generator, with their expected decoding."""
import struct
from vf.dwgen import DW_OP, uleb, sleb, Die, pad_uleb

# operand classes: (name, class)
NONE = ["deref", "dup", "drop", "over", "swap", "rot", "abs", "and_", "minus", "plus", "nop", "lit0", "lit5", "lit31", "reg0", "reg5", "reg31", "call_frame_cfa", "stack_value"]
U1 = ["const1u", "pick", "deref_size"]
S1 = ["const1s"]
U2, S2, U4, S4, U8, S8 = ["const2u"], ["const2s"], ["const4u"], ["const4s"], ["const8u"], ["const8s"]
ULEB = ["constu", "plus_uconst", "regx", "piece"]
SLEB = ["consts", "fbreg", "breg0", "breg7", "breg31"]


def bounds(bits, signed):
    if signed:
        return [0, 1, -1, (1 << (bits - 1)) - 1, -(1 << (bits - 1))]
    return [0, 1, (1 << bits) - 1, 1 << (bits - 1)]


def gen_expr(rng, version, types, n=None, depth=0):
    """Returns (ops for dwgen, expected [(opcode, [operand descriptors])]).
    Operand descriptors: ('u', n) unsigned number, ('s', n) signed, ('x', n) hex (address), ('die', Die), ('block', bytes),
    ('expr', expected-list) nested expression, ('cuoff', Die) CU-relative offset of a DIE reported as a number."""
    ops, exp = [], []
    for _ in range(n if n is not None else rng.randint(1, 8)):
        k = rng.random()
        if k < 0.25:
            nm = rng.choice(NONE); ops.append((nm,)); exp.append((DW_OP[nm], []))
        elif k < 0.5:
            cls = rng.choice([(U1, 8, False), (S1, 8, True), (U2, 16, False), (S2, 16, True), (U4, 32, False), (S4, 32, True), (U8, 64, False), (S8, 64, True)])
            nm = rng.choice(cls[0]); v = rng.choice(bounds(cls[1], cls[2]) + [rng.randrange(1 << (cls[1] - 1))])
            ops.append((nm, v)); exp.append((DW_OP[nm], [("s" if cls[2] else "u", v)]))
        elif k < 0.62:
            nm = rng.choice(ULEB); v = rng.choice([0, 1, 127, 128, 16383, 16384, (1 << 32) - 1, (1 << 63), (1 << 64) - 1, rng.getrandbits(40)])
            ops.append((nm, v)); exp.append((DW_OP[nm], [("u", v)]))
        elif k < 0.74:
            nm = rng.choice(SLEB); v = rng.choice([0, 1, -1, 63, 64, -64, -65, 8191, -8192, (1 << 63) - 1, -(1 << 63), -rng.getrandbits(30)])
            ops.append((nm, v)); exp.append((DW_OP[nm], [("s", v)]))
        elif k < 0.8:
            a, b = rng.choice([0, 1, 200, (1 << 32)]), rng.choice([0, -1, 1, -300, (1 << 40)])
            ops.append(("bregx", a, b)); exp.append((DW_OP["bregx"], [("u", a), ("s", b)]))
        elif k < 0.84:
            a, b = rng.choice([0, 1, 300]), rng.choice([0, 7, 1 << 20])
            ops.append(("bit_piece", a, b)); exp.append((DW_OP["bit_piece"], [("u", a), ("u", b)]))
        elif k < 0.88:
            v = rng.choice([0, 0x1234, (1 << 64) - 1, rng.getrandbits(48)])
            ops.append(("addr", v)); exp.append((DW_OP["addr"], [("x", v)]))
        elif k < 0.91:
            b = bytes(rng.randrange(256) for _ in range(rng.choice([0, 1, 3, 8])))
            ops.append(("implicit_value", b)); exp.append((DW_OP["implicit_value"], [("block", b)]))
        elif types and k < 0.97:
            t = rng.choice(types)
            gnu = rng.random() < 0.5 or version < 5
            pfx = "GNU_" if gnu else ""
            c = rng.choice(["regval_type", "deref_type", "convert", "reinterpret", "const_type", "implicit_pointer", "call"])
            if c == "regval_type":
                r = rng.choice([0, 5, 300]); ops.append((pfx + c, r, t)); exp.append((DW_OP[pfx + c], [("u", r), ("cuoff", t)]))
            elif c == "deref_type":
                s = rng.choice([1, 4, 8, 255]); ops.append((pfx + c, s, t)); exp.append((DW_OP[pfx + c], [("u", s), ("cuoff", t)]))
            elif c in ("convert", "reinterpret"):
                ops.append((pfx + c, t)); exp.append((DW_OP[pfx + c], [("cuoff", t)]))
            elif c == "const_type":
                b = bytes(rng.randrange(256) for _ in range(rng.choice([1, 4, 8])))
                ops.append((pfx + c, t, b)); exp.append((DW_OP[pfx + c], [("die", t), ("block", b)]))
            elif c == "implicit_pointer":
                o = rng.choice([0, 1, 63, 100])
                ops.append((pfx + c, t, o)); exp.append((DW_OP[pfx + c], [("die", t), ("s", o)]))
            else:
                nm = rng.choice(["call2", "call4"]); ops.append((nm, t)); exp.append((DW_OP[nm], [("cuoff", t)]))
        elif depth < 2:
            sub_ops, sub_exp = gen_expr(rng, version, [], n=rng.randint(1, 2), depth=depth + 1)
            nm = "GNU_entry_value" if (version < 5 or rng.random() < 0.5) else "entry_value"
            ops.append((nm, sub_ops)); exp.append((DW_OP[nm], [("expr", sub_exp)]))
        else:
            ops.append(("nop",)); exp.append((DW_OP["nop"], []))
    return ops, exp


def op_offsets(writer, unit, ops):
    """Byte offset of each operation within its expression."""
    offs = []
    pos = 0
    for op in ops:
        offs.append(pos)
        pos += 1 + len(writer.enc_op_args(unit, op[0] if isinstance(op[0], int) else DW_OP[op[0]], op[1:], False))
    return offs


class LocSection:
    """.debug_loc (DWARF 2-4) and .debug_loclists (DWARF 5) builders."""

    def __init__(self, nindexed=0):
        self.loc = bytearray()
        # header + a table of NINDEXED list offsets (relative to the table, i.e. to DW_AT_loclists_base = 12), for DW_FORM_loclistx
        self.loclists = bytearray(struct.pack("<IHBBI", 0, 5, 8, 0, nindexed) + b"\xff" * (4 * nindexed))   # length patched at the end
        self.hdr = 12 + 4 * nindexed

    def add_loc(self, writer, unit, base, entries):
        """entries: [('range', begin, end, ops) | ('base', addr)], offsets relative to the current base.
        Returns (section offset, expected [(low, high)])."""
        off = len(self.loc)
        cur = base
        exp = []
        for e in entries:
            if e[0] == "base":
                self.loc += struct.pack("<QQ", (1 << 64) - 1, e[1])
                cur = e[1]
            else:
                ex = writer.enc_expr(unit, e[3], True)
                self.loc += struct.pack("<QQH", e[1], e[2], len(ex)) + ex
                exp.append((cur + e[1], cur + e[2]))
        self.loc += struct.pack("<QQ", 0, 0)
        return off, exp

    def add_loclists(self, writer, unit, base, entries, index=None):
        """entries: ('offset_pair', b, e, ops) | ('base', addr) | ('start_end', a, b, ops) | ('start_length', a, n, ops)
        INDEX: slot of the offset table that is to point at this list."""
        off = len(self.loclists)
        if index is not None:
            self.loclists[12 + 4 * index:16 + 4 * index] = struct.pack("<I", off - 12)
        cur = base
        exp = []
        for e in entries:
            if e[0] == "base":
                self.loclists += bytes([6]) + struct.pack("<Q", e[1]); cur = e[1]
                continue
            ex = writer.enc_expr(unit, e[3], True)
            if e[0] == "offset_pair":
                self.loclists += bytes([4]) + uleb(e[1]) + uleb(e[2]); exp.append((cur + e[1], cur + e[2]))
            elif e[0] == "start_end":
                self.loclists += bytes([7]) + struct.pack("<QQ", e[1], e[2]); exp.append((e[1], e[2]))
            elif e[0] == "start_length":
                self.loclists += bytes([8]) + struct.pack("<Q", e[1]) + uleb(e[2]); exp.append((e[1], e[1] + e[2]))
            elif e[0] == "default":
                # DW_LLE_default_location: applies wherever no other entry does; reported with the whole address space as its range
                self.loclists += bytes([5]); exp.append((0, (1 << 64) - 1))
            self.loclists += uleb(len(ex)) + ex
        self.loclists += bytes([0])
        return off, exp

    def finish(self):
        ll = bytes(self.loclists)
        if len(ll) > self.hdr:
            ll = struct.pack("<I", len(ll) - 4) + ll[4:]
        else:
            ll = b""
        return bytes(self.loc), ll
