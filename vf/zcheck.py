"""Shared oracle plumbing for the properties decided on generated Zwerg programs."""
import random
from vf import common, zast, zmodel as M, zcmp

FUEL = 40000
MAXRES = 4000


def eng_results(r):
    return [tuple(zcmp.from_engine(v) for v in s) for s in r["res"]]


def eng_key(s):
    return repr([zcmp.strip(v) for v in s])


def exact_key(s):
    """Whole serialised stack incl. positions and domains."""
    return repr([zcmp.canon(v) for v in s])


def skipped(r):
    return (r["st"] == "error" and "fuel" in r.get("msg", "")) or r["st"] == "cut"


def compare_model(m, r):
    """'' if the engine outcome R agrees with the model outcome M, else what differs."""
    if m["status"] == "reject":
        return "" if r["st"] == "reject" else "compiled although the model rejects (%s)" % m["msg"]
    if r["st"] == "reject":
        return "rejected although the model accepts"
    if m["status"] == "error":
        return "" if r["st"] == "error" else "no error raised although the model raises (%s)" % m["msg"]
    if r["st"] != "done":
        return "raised although the model does not"
    er = eng_results(r)
    if len(er) != len(m["results"]):
        return "number of results"
    if not zcmp.results_match(m["results"], er, m["ordered"]):
        if zcmp.results_match(m["results"], er, False):
            return "order of results (documented order)"
        return "result values"
    if not m["closure"] and (m["diag"] > 0) != (len(r["stderr"]) > 0):
        return "diagnostics"
    return ""


def describe(m, r):
    return dict(model=dict(status=m["status"], msg=m["msg"], diag=m["diag"], ordered=m["ordered"],
                           results=[zcmp.show_stack(s) for s in m["results"]][:12]),
                engine=dict(st=r["st"], msg=r.get("msg"), stderr=r["stderr"][:300],
                            results=[zcmp.show_stack(s) for s in eng_results(r)][:12] if r["st"] not in ("reject", "harness") else []))


def o1(d, node, text=None):
    """Run NODE on the engine and on the model.  Returns (why, m, r); why None = no verdict."""
    txt = text or zast.text(node)
    r = d.run(txt, fuel=FUEL, max=MAXRES)
    if skipped(r):
        return None, None, r
    m = M.run(node)
    if m["status"] in ("indeterminate", "budget"):
        return None, m, r
    return compare_model(m, r), m, r


def same_outcome(r1, r2, ordered=False):
    """Metamorphic equality of two engine outcomes.  '' if equal."""
    if skipped(r1) or skipped(r2):
        return None
    if (r1["st"] == "reject") != (r2["st"] == "reject"):
        return "compile verdict differs (%s: %s / %s: %s)" % (r1["st"], r1.get("msg", "")[:80], r2["st"], r2.get("msg", "")[:80])
    if r1["st"] == "reject":
        return ""
    if (r1["st"] == "error") != (r2["st"] == "error"):
        return "one raises, the other does not"
    if r1["st"] == "error":
        return ""
    a = [exact_key(s) for s in eng_results(r1)]
    b = [exact_key(s) for s in eng_results(r2)]
    if ordered:
        if a != b:
            return "results differ" if sorted(a) != sorted(b) else "order of results differs"
    elif sorted(a) != sorted(b):
        return "results differ"
    if bool(r1["stderr"]) != bool(r2["stderr"]):
        return "diagnostics differ"
    return ""


def basic_events(r, txt, bad):
    if r.get("evbad"):
        bad.append(("api-contract", dict(text=txt, ev=r["ev"])))
    if r.get("stray"):
        bad.append(("stray-stdout", dict(text=txt, n=r["stray"])))


def tally_ctx(out, prog):
    for c in set(zast.contexts(prog)):
        key = "%s<%s" % c
        out["ctx"][key] = out["ctx"].get(key, 0) + 1


def consume(chk, results, tot, ctx, samples, label):
    """Fold job results into totals; report violations."""
    for r in results:
        if "crash" in r:
            chk.crash_violation(r, label); continue
        if "timeout" in r:
            chk.violation("hang", {"what": "driver did not answer within the watchdog", "request": r["timeout"]["request"][:2000]}); continue
        if "harness_error" in r:
            chk.inconc(r["harness_error"][-800:]); continue
        for k, v in r.items():
            if isinstance(v, int) and not isinstance(v, bool):
                tot[k] = tot.get(k, 0) + v
        for k, v in r.get("ctx", {}).items():
            ctx[k] = ctx.get(k, 0) + v
        if len(samples) < 8:
            samples += r.get("samples", [])[:1]
        for what, detail in r.get("bad", []):
            t = detail.get("minimised", detail.get("text"))
            chk.violation(what if t is None else "%s:%s" % (what, str(t)[:200]), detail)


def any_value(v):
    """Engine JSON value -> comparable tuple for ANY value type (DWARF values by identity)."""
    t = v["t"]
    if t in ("c", "s", "f"):
        return zcmp.from_engine(v)
    if t == "q":
        return ("q", tuple(any_value(x) for x in v["v"]), v["p"], True)
    d = {k: (json_freeze(x)) for k, x in v.items() if k not in ("sh", "p")}
    return ("x", json_freeze(d), v["p"])


def json_freeze(x):
    if isinstance(x, dict):
        return tuple(sorted((k, json_freeze(v)) for k, v in x.items()))
    if isinstance(x, list):
        return tuple(json_freeze(v) for v in x)
    return x


def eng_results_any(r):
    return [tuple(any_value(v) for v in s) for s in r["res"]]
