"""Boundary lattice of the 64-bit signed+unsigned integer range."""
LO, HI = -(1 << 63), (1 << 64) - 1


def lattice():
    s = set()
    for k in range(0, 65):
        for d in (-2, -1, 0, 1, 2):
            for sg in (1, -1):
                s.add(sg * (1 << k) + d)
    for base in (0, (1 << 63) - 1, -(1 << 63), (1 << 64) - 1, (1 << 32), 10**18, 10**19):
        for d in range(-3, 4):
            s.add(base + d)
    for v in (3, 5, 7, 10, 100, 255, 256, 1000, 0x7fffffff, 0x80000000, 0xffffffff, 6700417, 641, 3037000499, 3037000500,
              4294967295, 4294967296, 4294967297, 0x5555555555555555, 0xaaaaaaaaaaaaaaaa, 0x123456789abcdef0):
        s.add(v)
        s.add(-v)
    return sorted(v for v in s if LO <= v <= HI)


def reps(v):
    """Internal representations (sign char, 64-bit pattern) of V."""
    r = []
    if v >= 0:
        r.append(("u", v))
        if v <= (1 << 63) - 1:
            r.append(("s", v))
    else:
        r.append(("s", v & ((1 << 64) - 1)))
    return r


def decode(tok):
    """'s<hex>:<printed>' -> (value, printed)."""
    head, printed = tok.split(":", 1)
    u = int(head[1:], 16)
    if head[0] == "s":
        v = u - (1 << 64) if u >> 63 else u
    else:
        v = u
    return v, printed
