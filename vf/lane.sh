#!/bin/bash
# usage: vf/lane.sh <lane-number> <seed-id>...   verify + detect seeded changes in a scratch worktree of /repo (/tmp/dwl-N) with a copy of /verif (/tmp/vfl-N); CHECKS="Cxx ..." overrides the checks run
L=$1; shift
WT=/tmp/dwl-$L; VC=/tmp/vfl-$L
[ -d $WT ] || git -C /repo worktree add --detach $WT HEAD >/dev/null 2>&1
git -C $WT checkout -q --detach $(git -C /repo rev-parse HEAD); git -C $WT checkout -- .
mkdir -p $VC
for sid in "$@"; do
  rsync -a --delete --exclude build --exclude run --exclude .git --exclude evidence /verif/ $VC/
  mkdir -p $VC/evidence $VC/run
  if ! python3 -c "import json,sys; m=json.load(open('/verif/seeded/$sid/meta.json')); sys.exit(0 if m.get('verification',{}).get('confirmed') else 1)"; then
    python3 /verif/vf/seedtool.py verify $sid /tmp/sv-$L-$sid > /verif/run/verify_$sid.log 2>&1
    tail -1 /verif/run/verify_$sid.log
    cp /verif/seeded/$sid/meta.json $VC/seeded/$sid/meta.json
  fi
  VERIF_REPO=$WT python3 $VC/vf/seedtool.py detect $sid ${CHECKS} > /verif/run/detect_$sid.log 2>&1
  tail -2 /verif/run/detect_$sid.log
  cp $VC/seeded/$sid/meta.json /verif/seeded/$sid/meta.json
  mkdir -p /verif/run/det_$sid; cp -r $VC/run/* /verif/run/det_$sid/ 2>/dev/null; rm -rf $VC/run/*
done
