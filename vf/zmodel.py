"""O1 -- executable reference model of documented Zwerg.

Naive, push-style and state-free: ev(node, stack, env) is a Python generator of
(stack, env) results for ONE input stack; the result for a stream is the
concatenation of the per-stack results.  No origins, no re-feeding, no state
area: the failure class "remembers earlier stacks" cannot be expressed here.

Values:
  ("c", int, dom, pos)        dom: dec hex oct bin bool pos T(=slot type, value is the type name)
  ("s", bytes, pos)
  ("q", tuple(values), pos, ordered)
  ("f", block-node, env-dict, pos)
pos may be None = unknown (derived from a stream whose order is not documented).
"""
from vf import zast

LO, HI = -(1 << 63), (1 << 64) - 1
ARITH = {"dec", "hex", "oct", "bin", "pos"}
PLAIN = {"dec", "pos"}


class HardError(Exception):
    """The execution raises (zw_result_next returns false)."""


class CompileError(Exception):
    """The query is rejected at compile time."""


class Indeterminate(Exception):
    """The documentation does not determine the outcome; no verdict."""


class Budget(Exception):
    """Model step budget exhausted; no verdict."""


def C(v, dom="dec", pos=0):
    return ("c", v, dom, pos)


def S(b, pos=0):
    return ("s", bytes(b), pos)


def Q(items, pos=0, ordered=True):
    return ("q", tuple(items), pos, ordered)


def setpos(v, pos):
    if v[0] == "c":
        return ("c", v[1], v[2], pos)
    if v[0] == "s":
        return ("s", v[1], pos)
    if v[0] == "q":
        return ("q", v[1], pos, v[3])
    return ("f", v[1], v[2], pos)


def getpos(v):
    return v[3] if v[0] in ("c", "f") else v[2]


def tname(v):
    return {"c": "T_CONST", "s": "T_STR", "q": "T_SEQ", "f": "T_CLOSURE"}[v[0]]


def render(v):
    """%s rendering (value::show)."""
    if v[0] == "c":
        x, dom = v[1], v[2]
        if dom in ("dec", "pos"):
            return str(x).encode()
        if dom == "bool":
            return b"true" if x != 0 else b"false"
        if dom == "T":
            return x.encode()
        sign = b"-" if x < 0 else b""
        if dom == "hex":
            return sign + (b"0x%x" % abs(x) if x else b"0")
        if dom == "oct":
            return sign + (b"0%o" % abs(x) if x else b"0")
        if dom == "bin":
            return sign + (("0b{:b}".format(abs(x))).encode() if x else b"0")
        raise Indeterminate("rendering of domain " + dom)
    if v[0] == "s":
        return v[1]
    if v[0] == "q":
        if not v[3] and len(v[1]) > 1:
            raise Indeterminate("rendering of a sequence captured from an unordered stream")
        return b"[" + b", ".join(render(x) for x in v[1]) + b"]"
    return b"closure"


def cst_class(v):
    return "arith" if v[2] in ARITH else v[2]


def veq(a, b):
    """== of the language; raises Indeterminate where undocumented."""
    if a[0] != b[0]:
        return False
    if a[0] == "c":
        if cst_class(a) != cst_class(b):
            return False
        return a[1] == b[1]
    if a[0] == "s":
        return a[1] == b[1]
    if a[0] == "q":
        if len(a[1]) != len(b[1]):
            return False
        if (not a[3] or not b[3]) and len(a[1]) > 1:
            raise Indeterminate("comparison of a sequence captured from an unordered stream")
        return all(veq(x, y) for x, y in zip(a[1], b[1]))
    raise Indeterminate("comparison of closures")


def vlt(a, b):
    """a < b; cross-type and cross-class order is consistent but unspecified."""
    if a[0] != b[0]:
        raise Indeterminate("order of values of different types")
    if a[0] == "c":
        if cst_class(a) != cst_class(b):
            raise Indeterminate("order of constants of unrelated domains")
        if a[2] == "T":
            if a[1] == b[1]:
                return False
            raise Indeterminate("order of slot type constants")
        return a[1] < b[1]
    if a[0] == "s":
        return a[1] < b[1]
    if a[0] == "q":
        if len(a[1]) != len(b[1]):
            return len(a[1]) < len(b[1])
        if (not a[3] or not b[3]) and len(a[1]) > 1:
            raise Indeterminate("comparison of a sequence captured from an unordered stream")
        # by element types first, then values: only decided here when types agree pairwise
        for x, y in zip(a[1], b[1]):
            if x[0] != y[0]:
                raise Indeterminate("order of sequences with differently typed elements")
        for x, y in zip(a[1], b[1]):
            if not veq(x, y):
                return vlt(x, y)
        return False
    raise Indeterminate("comparison of closures")


def key(v):
    """Identity of a value modulo == (used for closure seen-sets and multisets);
    positions are not part of it."""
    if v[0] == "c":
        return ("c", cst_class(v), v[1])
    if v[0] == "s":
        return ("s", v[1])
    if v[0] == "q":
        if not v[3] and len(v[1]) > 1:
            return ("q", "unordered", tuple(sorted((key(x) for x in v[1]), key=repr)))
        return ("q", tuple(key(x) for x in v[1]))
    raise Indeterminate("identity of closures")


class Ctx:
    """Order context of one stream collector (top level, a capture, the splices of
    one format string).  unordered=True: the documentation does not fix the order
    in which the stream's results arrive."""
    __slots__ = ("unordered",)

    def __init__(self):
        self.unordered = False


class Machine:
    def __init__(self, budget=200000):
        self.diag = 0          # soft-error diagnostics
        self.warn = 0          # warnings that do not drop the stack
        self.steps = budget
        self.used_closure = False
        self.nact = 0
        self.altfed = {}

    def feed(self, env, ctx=None):
        """Environment for evaluating a sub-chain that is fed ONE stack (a new activation)."""
        e = dict(env)
        self.nact += 1
        e["__act__"] = self.nact
        if ctx is not None:
            e["__ctx__"] = ctx
        return e

    def tick(self, n=1):
        self.steps -= n
        if self.steps < 0:
            raise Budget()

    # ------------------------------------------------------------ evaluation
    def ev(self, n, stk, env):
        """Generator of (stack, env).  STK is a tuple of values, TOS last."""
        self.tick()
        k = n[0]
        m = getattr(self, "ev_" + k)
        return m(n, stk, env)

    def ev_cat(self, n, stk, env):
        def go(i, stk, env):
            if i == len(n[1]):
                yield stk, env
                return
            for s2, e2 in self.ev(n[1][i], stk, env):
                yield from go(i + 1, s2, e2)
        return go(0, stk, env)

    def ev_alt(self, n, stk, env):
        # The order of an ALT's results is documented only when it is fed one stack.
        k = (id(n), env.get("__act__"))
        self.altfed[k] = self.altfed.get(k, 0) + 1
        if self.altfed[k] > 1:
            env["__ctx__"].unordered = True
        for b in n[1]:
            for s2, _ in self.ev(b, stk, self.newscope(env)):
                yield s2, env

    def ev_or(self, n, stk, env):
        for b in n[1]:
            any_ = False
            for s2, _ in self.ev(b, stk, self.feed(self.newscope(env))):
                any_ = True
                yield s2, env
            if any_:
                return

    def ev_int(self, n, stk, env):
        yield stk + (C(n[1], n[2]),), env

    def ev_elist(self, n, stk, env):
        yield stk + (Q(()),), env

    def ev_str(self, n, stk, env):
        parts = n[1]
        # Directives are resolved right to left; each consumes the TOS of each
        # result of its expression; a format string numbers the strings it
        # yields for one input stack 0,1,2,...

        def go(i, stk, env, suffix):
            if i < 0:
                yield stk, env, suffix
                return
            p = parts[i]
            if isinstance(p, (bytes, bytearray)):
                yield from go(i - 1, stk, env, bytes(p) + suffix)
                return
            if p[0] == "dir":
                prog = {"s": ("cat", []), "d": ("word", "value"),
                        "x": ("cat", [("word", "value"), ("word", "hex")]),
                        "o": ("cat", [("word", "value"), ("word", "oct")]),
                        "b": ("cat", [("word", "value"), ("word", "bin")])}[p[1]]
            else:
                prog = p[1]
            for s2, e2 in self.ev(prog, stk, self.feed(env)):
                if not s2:
                    raise HardError("stack underflow in format directive")
                yield from go(i - 1, s2[:-1], e2, render(s2[-1]) + suffix)
        ctx = Ctx()
        outer = env["__ctx__"]
        act = env.get("__act__")
        res = []
        e0 = dict(env)
        e0["__ctx__"] = ctx
        # All strings are computed first (whether their order is documented is only known at the end), but what computing the
        # k-th one costs in diagnostics, and a hard error met on the way to it, are charged only when the consumer asks for the
        # k-th one: the engine computes them on demand, and a consumer that stops early (?(E), an if condition, ||) never
        # gets to see the rest.
        base = self.diag
        pending = None
        try:
            for s2, e2, txt in go(len(parts) - 1, stk, e0, b""):
                res.append((s2, e2, txt, self.diag))
        except HardError as ex:
            pending = (ex, self.diag)
        final = self.diag
        self.diag = base
        # The strings one input stack gives rise to are numbered 0,1,2,... in the order
        # yielded; if that order is not documented, neither are the numbers.
        if ctx.unordered and len(res) > 1:
            outer.unordered = True
        for pos, (s2, e2, txt, dg) in enumerate(res):
            e3 = dict(e2)
            e3["__ctx__"] = outer
            e3["__act__"] = act
            self.diag = max(self.diag, dg)
            yield s2 + (S(txt, None if (ctx.unordered and len(res) > 1) else pos),), e3
        # the consumer asked for more than there is: everything has been computed by now
        self.diag = max(self.diag, final)
        if pending is not None:
            raise pending[0]

    def ev_read(self, n, stk, env):
        if n[1] not in env:
            if n[1] in WORDS:
                return (yield from self.word(n[1], stk, env))   # an unbound name that is a builtin word
            raise CompileError("unbound name " + n[1])
        v = env[n[1]]
        if v[0] == "f":
            # reading a name bound to a block applies it
            yield from self.apply(v, stk, env)
        else:
            yield stk + (v,), env

    def bind(self, ids, stk, env):
        if len(stk) < len(ids):
            raise HardError("stack underflow in binding block")
        e2 = dict(env)
        s2 = stk
        for name in reversed(ids):
            e2[name] = s2[-1]
            s2 = s2[:-1]
        return s2, e2

    def ev_paren(self, n, stk, env):
        ids, body = n[1], n[2]
        if not ids:
            yield from self.ev(body, stk, env)   # plain parentheses are not a scope
            return
        s2, e2 = self.bind(ids, stk, env)
        for s3, _ in self.ev(body, s2, e2):
            yield s3, env

    def ev_cap(self, n, stk, env):
        ids, body = n[1], n[2]
        s2, e2 = self.bind(ids, stk, env) if ids else (stk, env)
        items = []
        ctx = Ctx()
        for s3, _ in self.ev(body, s2, self.feed(self.newscope(e2), ctx)):
            if not s3:
                raise HardError("capture of an empty stack")
            items.append(s3[-1])
        yield s2 + (Q(items, 0, (not ctx.unordered) or len(items) < 2),), env

    def ev_bcap(self, n, stk, env):
        drop, body = n[1], n[2]
        inner = ("elist",) if body is None else ("cap", (), body)
        for s2, _ in self.ev(inner, stk, env):
            if len(s2) - 1 < drop:
                raise HardError("stack underflow in drop-below")
            yield s2[:len(s2) - 1 - drop] + (s2[-1],), env

    def ev_sub(self, n, stk, env):
        positive, ids, body = n[1], n[2], n[3]
        s2, e2 = self.bind(ids, stk, env) if ids else (stk, env)
        got = False
        for _ in self.ev(body, s2, self.feed(self.newscope(e2))):
            got = True
            break
        if got == positive:
            yield stk, env       # an assertion never changes the stack

    def ev_infix(self, n, stk, env):
        lhs, op, rhs = n[1], n[2], n[3]
        word = {"==": "?eq", "!=": "?ne", "<": "?lt", "<=": "?le", ">": "?gt", ">=": "?ge",
                "=~": "?match", "!~": "!match"}[op]
        ok = False
        for s1, _ in self.ev(lhs, stk, self.feed(self.newscope(env))):
            if not s1:
                raise HardError("infix operand on an empty stack")
            a = s1[-1]
            for s2, _ in self.ev(rhs, stk, self.feed(self.newscope(env))):
                if not s2:
                    raise HardError("infix operand on an empty stack")
                b = s2[-1]
                if a[0] == "f" or b[0] == "f":
                    raise Indeterminate("infix comparison of blocks")
                for _ in self.word(word, stk + (a, b), env):
                    ok = True
                    break
                if ok:
                    break
            if ok:
                break
        if ok:
            yield stk, env

    def ev_let(self, n, stk, env):
        ids, body = n[1], n[2]
        for s2, _ in self.ev(body, stk, self.feed(self.newscope(env))):
            if len(s2) < len(ids):
                raise HardError("stack underflow in let")
            e2 = dict(env)
            for i, name in enumerate(ids):
                e2[name] = s2[len(s2) - len(ids) + i]
            yield stk, e2

    def newscope(self, env):
        return dict(env)

    def ev_if(self, n, stk, env):
        c, t, e = n[1], n[2], n[3]
        got = False
        for _ in self.ev(c, stk, self.feed(self.newscope(env))):
            got = True
            break
        for s2, _ in self.ev(t if got else e, stk, self.feed(self.newscope(env))):
            yield s2, env

    def ev_close(self, n, stk, env):
        kind, body = n[1], n[2]
        if kind == "?":
            # E? is (E,): an ALT whose second branch is empty
            k = (id(n), env.get("__act__"))
            self.altfed[k] = self.altfed.get(k, 0) + 1
            if self.altfed[k] > 1:
                env["__ctx__"].unordered = True
            for s2, _ in self.ev(body, stk, self.newscope(env)):
                yield s2, env
            yield stk, env
            return
        self.used_closure = True
        # Each ==-class is yielded once; WHICH member of a class (they can differ in
        # positions) depends on the undocumented traversal order, so differing positions
        # are merged into "unknown" -- and the merged member is what the body is fed, so
        # that a body observing such a position makes the program indeterminate.
        wild = {}
        for _pass in range(4):
            out = {}
            order = []
            work = []
            newly = [False]

            def add(s2):
                kk = skey(s2)
                if kk in wild:
                    s2 = tuple(merge_pos(x, y) for x, y in zip(wild[kk], s2))
                    if s2 != wild[kk]:
                        wild[kk] = s2
                        newly[0] = True
                if kk in out:
                    m = tuple(merge_pos(x, y) for x, y in zip(out[kk], s2))
                    if m != out[kk]:
                        wild[kk] = m
                        newly[0] = True
                    return
                out[kk] = s2
                order.append(kk)
                work.append(s2)
            if kind == "*":
                add(stk)
            else:
                for s2, _ in self.ev(body, stk, self.feed(self.newscope(env))):
                    add(s2)
            while work:
                cur = work.pop(0)
                for s2, _ in self.ev(body, cur, self.feed(self.newscope(env))):
                    self.tick()
                    add(s2)
            if not newly[0]:
                break
        else:
            raise Indeterminate("closure classes with several members did not stabilise")
        if len(order) > 1:
            env["__ctx__"].unordered = True    # traversal order is not documented
        for kk in order:
            yield out[kk], env

    def ev_block(self, n, stk, env):
        cap = {k: v for k, v in env.items() if not k.startswith("__")}
        yield stk + (("f", n, cap, 0),), env

    def apply(self, clo, stk, env):
        node, cenv = clo[1], clo[2]
        ids, body = node[1], node[2]
        e0 = dict(cenv)
        e0["__ctx__"] = env["__ctx__"]
        e0 = self.feed(e0)
        s2, e2 = self.bind(ids, stk, e0) if ids else (stk, e0)
        for s3, _ in self.ev(body, s2, e2):
            yield s3, env

    def ev_npos(self, n, stk, env):
        if not stk:
            raise HardError("?N on an empty stack")
        p = getpos(stk[-1])
        if p is None:
            raise Indeterminate("position derived from an unordered stream")
        if (p == n[2]) == n[1]:
            yield stk, env

    def ev_word(self, n, stk, env):
        if n[1] in env:
            return self.ev_read(("read", n[1]), stk, env)        # a binding shadows the builtin
        return self.word(n[1], stk, env)

    # ----------------------------------------------------------------- words
    def soft(self):
        self.diag += 1

    def word(self, w, stk, env):
        self.tick()
        f = getattr(self, "w_" + WORDS[w][0], None) if w in WORDS else None
        if f is None:
            raise Indeterminate("word not modelled: " + w)
        return f(stk, env, *WORDS[w][1:])

    def need(self, stk, n):
        if len(stk) < n:
            raise HardError("stack underflow")

    def w_const(self, stk, env, v):
        yield stk + (v,), env

    def w_shf(self, stk, env, which):
        if which == "dup":
            self.need(stk, 1); yield stk + (stk[-1],), env
        elif which == "over":
            self.need(stk, 2); yield stk + (stk[-2],), env
        elif which == "swap":
            self.need(stk, 2); yield stk[:-2] + (stk[-1], stk[-2]), env
        elif which == "rot":
            self.need(stk, 3); yield stk[:-3] + (stk[-2], stk[-1], stk[-3]), env
        elif which == "drop":
            self.need(stk, 1); yield stk[:-1], env

    def w_type(self, stk, env):
        self.need(stk, 1)
        yield stk[:-1] + (C(tname(stk[-1]), "T"),), env

    def w_pos(self, stk, env):
        self.need(stk, 1)
        p = getpos(stk[-1])
        if p is None:
            raise Indeterminate("position derived from an unordered stream")
        yield stk[:-1] + (C(p, "pos"),), env

    def w_cast(self, stk, env, dom):
        self.need(stk, 1)
        v = stk[-1]
        if v[0] != "c":
            self.soft()
            return
        if v[2] == "T":
            raise Indeterminate("numeric value of a slot type constant")
        yield stk[:-1] + (C(v[1], dom),), env

    def w_value(self, stk, env):
        if len(stk) < 1 or stk[-1][0] != "c":
            self.soft()
            return
        v = stk[-1]
        if v[2] == "T":
            raise Indeterminate("numeric value of a slot type constant")
        yield stk[:-1] + (C(v[1], "dec"),), env

    def w_arith(self, stk, env, op):
        if len(stk) < 2:
            self.soft()
            return
        a, b = stk[-2], stk[-1]
        if a[0] != b[0] or a[0] == "f":
            self.soft()
            return
        if a[0] == "s":
            if op != "add":
                self.soft(); return
            yield stk[:-2] + (S(a[1] + b[1]),), env
            return
        if a[0] == "q":
            if op != "add":
                self.soft(); return
            yield stk[:-2] + (Q(a[1] + b[1], 0, (a[3] or len(a[1]) < 2) and (b[3] or len(b[1]) < 2)),), env
            return
        if a[2] not in ARITH or b[2] not in ARITH:
            # warns and computes anyway; the result domain of named constants is not documented
            raise Indeterminate("arithmetic on named constants")
        x, y = a[1], b[1]
        if op in ("div", "mod") and y == 0:
            self.soft(); return
        r = {"add": lambda: x + y, "sub": lambda: x - y, "mul": lambda: x * y,
             "div": lambda: x // y, "mod": lambda: x % y}[op]()
        if not (LO <= r <= HI):
            self.soft(); return
        if a[2] in PLAIN:
            dom = b[2]
        else:
            if b[2] not in PLAIN and b[2] != a[2]:
                raise Indeterminate("result domain of mixed-radix arithmetic")
            dom = a[2]
        yield stk[:-2] + (C(r, dom),), env

    def w_length(self, stk, env):
        if len(stk) < 1 or stk[-1][0] not in "sq":
            self.soft(); return
        yield stk[:-1] + (C(len(stk[-1][1])),), env

    def w_elem(self, stk, env, rev):
        if len(stk) < 1 or stk[-1][0] not in "sq":
            self.soft(); return
        v = stk[-1]
        if v[0] == "s":
            items = [S(v[1][i:i + 1]) for i in range(len(v[1]))]
            unordered = False
        else:
            items = list(v[1])
            unordered = (not v[3]) and len(items) > 1
        if rev:
            items = items[::-1]
        if unordered:
            env["__ctx__"].unordered = True
        for i, it in enumerate(items):
            yield stk[:-1] + (setpos(it, None if unordered else i),), env

    def w_empty(self, stk, env, positive):
        if len(stk) < 1 or stk[-1][0] not in "sq":
            self.soft(); return
        if (len(stk[-1][1]) == 0) == positive:
            yield stk, env

    def w_find(self, stk, env, how, positive):
        if len(stk) < 2 or stk[-1][0] != stk[-2][0] or stk[-1][0] not in "sq":
            self.soft(); return
        hay, need = stk[-2], stk[-1]
        if hay[0] == "s":
            h, n = hay[1], need[1]
            r = {"find": n in h, "starts": h.startswith(n), "ends": h.endswith(n)}[how]
        else:
            if ((not hay[3]) and len(hay[1]) > 1) or ((not need[3]) and len(need[1]) > 1):
                raise Indeterminate("search in a sequence captured from an unordered stream")
            h, n = hay[1], need[1]

            def eqat(i):
                return all(x[0] == y[0] and veq(x, y) for x, y in zip(h[i:i + len(n)], n))
            if how == "find":
                r = any(eqat(i) for i in range(len(h) - len(n) + 1)) if len(n) <= len(h) else False
            elif how == "starts":
                r = len(n) <= len(h) and eqat(0)
            else:
                r = len(n) <= len(h) and eqat(len(h) - len(n))
        if r == positive:
            yield stk, env

    def w_match(self, stk, env, positive):
        if len(stk) < 2 or stk[-1][0] != "s" or stk[-2][0] != "s":
            self.soft(); return
        import re
        pat, hay = stk[-1][1], stk[-2][1]
        if pat in BAD_ERE:
            self.soft(); return       # cannot be compiled: a diagnostic and no result, for every stack it is applied to
        if b"\0" in pat or b"\0" in hay or not SAFE_ERE.fullmatch(pat):
            raise Indeterminate("regular expression outside the portable subset")
        r = re.search(pat, hay) is not None
        if r == positive:
            yield stk, env

    def w_cmp(self, stk, env, rel, positive):
        self.need(stk, 2)
        a, b = stk[-2], stk[-1]
        if a[0] == "f" and b[0] == "f":
            raise Indeterminate("comparison of closures")
        if rel == "eq":
            r = veq(a, b)
        elif rel == "lt":
            r = (not veq(a, b)) and vlt(a, b)
        else:
            r = (not veq(a, b)) and vlt(b, a)
        if r == positive:
            yield stk, env

    def w_apply(self, stk, env):
        self.need(stk, 1)
        if stk[-1][0] != "f":
            self.soft(); return
        yield from self.apply(stk[-1], stk[:-1], env)


import re as _re
# patterns POSIX requires regcomp to refuse (unbalanced bracket / parenthesis / brace, bad interval, bad class, reversed range, trailing backslash)
BAD_ERE = frozenset([b"(", b"[", b"a{2,1}", b"(ab", b"[[:foo:]]", b"a\\", b"[b-a]", b"a{"])
SAFE_ERE = _re.compile(rb"[A-Za-z0-9 _]*(\.\*)?[A-Za-z0-9 _]*")

WORDS = {
    "dup": ("shf", "dup"), "over": ("shf", "over"), "swap": ("shf", "swap"), "rot": ("shf", "rot"), "drop": ("shf", "drop"),
    "type": ("type",), "pos": ("pos",), "value": ("value",), "length": ("length",),
    "hex": ("cast", "hex"), "dec": ("cast", "dec"), "oct": ("cast", "oct"), "bin": ("cast", "bin"),
    "add": ("arith", "add"), "sub": ("arith", "sub"), "mul": ("arith", "mul"), "div": ("arith", "div"), "mod": ("arith", "mod"),
    "elem": ("elem", False), "relem": ("elem", True),
    "?empty": ("empty", True), "!empty": ("empty", False),
    "?find": ("find", "find", True), "!find": ("find", "find", False),
    "?starts": ("find", "starts", True), "!starts": ("find", "starts", False),
    "?ends": ("find", "ends", True), "!ends": ("find", "ends", False),
    "?match": ("match", True), "!match": ("match", False),
    "?eq": ("cmp", "eq", True), "!eq": ("cmp", "eq", False), "?ne": ("cmp", "eq", False), "!ne": ("cmp", "eq", True),
    "?lt": ("cmp", "lt", True), "!lt": ("cmp", "lt", False), "?ge": ("cmp", "lt", False), "!ge": ("cmp", "lt", True),
    "?gt": ("cmp", "gt", True), "!gt": ("cmp", "gt", False), "?le": ("cmp", "gt", False), "!le": ("cmp", "gt", True),
    "apply": ("apply",),
    "true": ("const", C(1, "bool")), "false": ("const", C(0, "bool")),
    "T_CONST": ("const", C("T_CONST", "T")), "T_STR": ("const", C("T_STR", "T")),
    "T_SEQ": ("const", C("T_SEQ", "T")), "T_CLOSURE": ("const", C("T_CLOSURE", "T")),
}


def merge_pos(a, b):
    """Two ==-equal values: keep what they agree on, positions that differ become unknown."""
    pa, pb = getpos(a), getpos(b)
    p = pa if pa == pb else None
    if a[0] == "q" and len(a[1]) == len(b[1]) and a[3] and b[3]:
        return ("q", tuple(merge_pos(x, y) for x, y in zip(a[1], b[1])), p, True)
    if a[0] == "c":
        # members of one class may also differ in radix domain (1 == 0x1)
        if a[2] != b[2]:
            raise Indeterminate("which of several equal constants of different domains a closure yields")
    return setpos(a, p)


def observes_pos(n):
    return any(x[0] == "npos" or (x[0] in ("word", "read") and x[1] == "pos") for x in zast.walk(n))


def skey(stk):
    return tuple(key(v) for v in stk)


# -------------------------------------------------------------- static checks
def static_check(n, bound=frozenset(), scope=None):
    """Compile-time name resolution as documented: returns the set of names
    bound in the current scope after N; raises CompileError."""
    if scope is None:
        scope = set()
    k = n[0]
    if k == "cat":
        b = set(bound)
        for c in n[1]:
            b = static_check(c, frozenset(b), scope)
        return b
    if k in ("alt", "or"):
        for c in n[1]:
            static_check(c, bound, set())
        return set(bound)
    if k == "read":
        if n[1] not in bound and n[1] not in WORDS:
            raise CompileError("unbound name " + n[1])
        return set(bound)
    if k == "let":
        static_check(n[2], bound, set())
        for name in n[1]:
            if name in scope:
                raise CompileError("name rebound " + name)
        for name in n[1]:
            scope.add(name)
        return set(bound) | set(n[1])
    if k == "paren":
        if n[1]:
            checkids(n[1])
            static_check(n[2], frozenset(set(bound) | set(n[1])), set(n[1]))
            return set(bound)
        return static_check(n[2], bound, scope)
    if k == "cap":
        checkids(n[1])
        static_check(n[2], frozenset(set(bound) | set(n[1])), set(n[1]))
        return set(bound)
    if k == "sub":
        checkids(n[2])
        static_check(n[3], frozenset(set(bound) | set(n[2])), set(n[2]))
        return set(bound)
    if k == "block":
        checkids(n[1])
        static_check(n[2], frozenset(set(bound) | set(n[1])), set(n[1]))
        return set(bound)
    if k == "bcap":
        if n[2] is not None:
            static_check(n[2], bound, set())
        return set(bound)
    if k == "infix":
        static_check(n[1], bound, set()); static_check(n[3], bound, set())
        return set(bound)
    if k == "if":
        for c in n[1:4]:
            static_check(c, bound, set())
        return set(bound)
    if k == "close":
        if n[1] == "?":
            static_check(n[2], bound, set())   # E? is ALT(E, nop): a branch scope
        else:
            static_check(n[2], bound, set())
        return set(bound)
    if k == "str":
        # splices are built right to left; names bound in a splice leak (plain context)
        b = set(bound)
        for p in reversed(n[1]):
            if not isinstance(p, (bytes, bytearray)) and p[0] == "splice":
                b = static_check(p[1], frozenset(b), scope)
        return b
    return set(bound)


def checkids(ids):
    if len(set(ids)) != len(ids):
        raise CompileError("name rebound in id block")


def run(node, stk=(), budget=200000):
    """Full result of NODE on one input stack.

    Returns dict(status, results=[stack...], diag, err) where status is
    'reject' | 'done' | 'error' | 'indeterminate' | 'budget'."""
    m = Machine(budget)
    top = Ctx()
    try:
        static_check(node)
    except CompileError as e:
        return dict(status="reject", msg=str(e), results=[], diag=0, closure=False, ordered=True)
    out = []
    try:
        for s, _ in m.ev(node, tuple(stk), {"__ctx__": top, "__act__": 0}):
            out.append(s)
        st = "done"
        msg = ""
    except HardError as e:
        st, msg = "error", str(e)
    except CompileError as e:
        return dict(status="reject", msg=str(e), results=[], diag=0, closure=False, ordered=True)
    except Indeterminate as e:
        st, msg = "indeterminate", str(e)
    except Budget:
        st, msg = "budget", ""
    except RecursionError:
        st, msg = "budget", "recursion"
    return dict(status=st, msg=msg, results=out, diag=m.diag, closure=m.used_closure, ordered=not top.unordered)
