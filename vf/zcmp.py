"""Comparison of engine results (zwdrv JSON) with model values (zmodel)."""
from vf import zmodel as M

DOMMAP = {"dec": "dec", "hex": "hex", "oct": "oct", "bin": "bin", "bool": "bool", "pos": "pos"}


def from_engine(v):
    """zwdrv JSON value -> model value (raises ValueError for types the model lacks)."""
    t = v["t"]
    if t == "c":
        d = v["d"]
        if d in DOMMAP:
            return ("c", int(v["v"]), DOMMAP[d], v["p"])
        if v["f"].startswith("T_"):
            return ("c", v["f"], "T", v["p"])
        return ("c", int(v["v"]), "other:" + d, v["p"])
    if t == "s":
        return ("s", bytes.fromhex(v["v"]), v["p"])
    if t == "q":
        return ("q", tuple(from_engine(x) for x in v["v"]), v["p"], True)
    if t == "f":
        return ("f", None, None, v["p"])
    raise ValueError("type " + t)


def canon(v, ordered_ctx=True):
    """Hashable canonical form of a model value, modulo what the model leaves open.
    Positions None become a wildcard marker; unordered sequences are sorted."""
    if v[0] == "c":
        return ("c", v[1], v[2], v[3])
    if v[0] == "s":
        return ("s", v[1], v[2])
    if v[0] == "x":
        return v
    if v[0] == "q":
        items = [canon(x) for x in v[1]]
        if not v[3]:
            items = sorted(items, key=repr)
            return ("q~", tuple(items), v[2])
        return ("q", tuple(items), v[2])
    return ("f", v[3])


def match(model_v, eng_v):
    """Does the engine value agree with the model value (None positions = wildcard,
    unordered model sequences compared as multisets)?"""
    if model_v[0] != eng_v[0]:
        return False
    mp, ep = M.getpos(model_v), M.getpos(eng_v)
    if mp is not None and mp != ep:
        return False
    if model_v[0] == "c":
        return model_v[1] == eng_v[1] and model_v[2] == eng_v[2]
    if model_v[0] == "s":
        return model_v[1] == eng_v[1]
    if model_v[0] == "f":
        return True
    a, b = model_v[1], eng_v[1]
    if len(a) != len(b):
        return False
    if model_v[3] or len(a) < 2:
        return all(match(x, y) for x, y in zip(a, b))
    return multiset_match(list(a), list(b), match)


def multiset_match(ms, es, f):
    """Bipartite matching (small sizes): every model item matched to a distinct engine item."""
    if len(ms) != len(es):
        return False
    es = list(es)
    used = [False] * len(es)

    def go(i):
        if i == len(ms):
            return True
        for j in range(len(es)):
            if not used[j] and f(ms[i], es[j]):
                used[j] = True
                if go(i + 1):
                    return True
                used[j] = False
        return False
    # cheap pre-check by sorting on wildcard-free keys
    return go(0)


def stack_match(ms, es):
    return len(ms) == len(es) and all(match(x, y) for x, y in zip(ms, es))


def results_match(model_results, eng_results, ordered):
    if len(model_results) != len(eng_results):
        return False
    if ordered:
        return all(stack_match(a, b) for a, b in zip(model_results, eng_results))
    if len(model_results) > 9:
        # avoid exponential matching: compare sorted wildcard-free projections first
        def proj(s):
            return repr([strip(v) for v in s])
        if sorted(proj(s) for s in model_results) != sorted(proj(s) for s in eng_results):
            return False
        if all(no_wild(v) for s in model_results for v in s):
            return sorted(repr([canon(v) for v in s]) for s in model_results) == \
                sorted(repr([canon(v) for v in s]) for s in eng_results)
        return True   # projections agree; full wildcard matching skipped for size
    return multiset_match(model_results, eng_results, stack_match)


def strip(v):
    """Value without positions, sequences sorted: a projection both sides must agree on."""
    if v[0] == "c":
        return ("c", v[1], v[2])
    if v[0] == "s":
        return ("s", v[1])
    if v[0] == "q":
        return ("q", tuple(sorted((strip(x) for x in v[1]), key=repr)))
    if v[0] == "x":
        return ("x", v[1])
    return ("f",)


def no_wild(v):
    if M.getpos(v) is None:
        return False
    if v[0] == "q":
        return v[3] and all(no_wild(x) for x in v[1])
    return True


def show(v):
    if v[0] == "c":
        return "%s:%s@%s" % (v[1], v[2], v[3])
    if v[0] == "s":
        return "%r@%s" % (v[1], v[2])
    if v[0] == "q":
        return ("[" if v[3] else "[~") + ", ".join(show(x) for x in v[1]) + "]@%s" % v[2]
    return "closure@%s" % v[3]


def show_stack(s):
    return "<" + " ".join(show(v) for v in s) + ">"
