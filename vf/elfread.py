"""Independent reader of ELF symbol tables (struct-level, no libelf) and of elf.h names."""
import re, struct

SHT_SYMTAB, SHT_DYNSYM = 2, 11


def read_symtab(path, want=SHT_SYMTAB):
    """Returns dict(machine, cls, big, type, syms=[dict(name, value, size, info, other, shndx)]) or None."""
    data = open(path, "rb").read()
    if data[:4] != b"\x7fELF":
        return None
    cls = 64 if data[4] == 2 else 32
    big = data[5] == 2
    e = ">" if big else "<"
    if cls == 64:
        etype, machine, _, _, _, shoff, _, _, _, _, shentsize, shnum, shstrndx = struct.unpack_from(e + "HHIQQQIHHHHHH", data, 16)
    else:
        etype, machine, _, _, _, shoff, _, _, _, _, shentsize, shnum, shstrndx = struct.unpack_from(e + "HHIIIIIHHHHHH", data, 16)
    secs = []
    for i in range(shnum):
        off = shoff + i * shentsize
        if cls == 64:
            n, t, fl, addr, o, sz, link, info, align, entsize = struct.unpack_from(e + "IIQQQQIIQQ", data, off)
        else:
            n, t, fl, addr, o, sz, link, info, align, entsize = struct.unpack_from(e + "IIIIIIIIII", data, off)
        secs.append(dict(type=t, off=o, size=sz, link=link, entsize=entsize, flags=fl, addr=addr))
    out = dict(machine=machine, cls=cls, big=big, type=etype, syms=None, nsections=shnum)
    for s in secs:
        if s["type"] == want:
            strs = secs[s["link"]]
            strdata = data[strs["off"]:strs["off"] + strs["size"]]
            ent = 24 if cls == 64 else 16
            syms = []
            for k in range(s["size"] // ent):
                o = s["off"] + k * ent
                if cls == 64:
                    noff, info, other, shndx, value, size = struct.unpack_from(e + "IBBHQQ", data, o)
                else:
                    noff, value, size, info, other, shndx = struct.unpack_from(e + "IIIBBH", data, o)
                end = strdata.find(b"\0", noff)
                syms.append(dict(name=strdata[noff:end if end >= 0 else len(strdata)], value=value, size=size, info=info, other=other, shndx=shndx))
            out["syms"] = syms
            break
    return out


_names = None


def elf_names():
    """(em: {name: number}, by family: {('STT'|'STB'|'STV', arch or None): {number: [names]}}) parsed from elf.h."""
    global _names
    if _names is not None:
        return _names
    txt = open("/usr/include/elf.h").read()
    defs = {}
    for m in re.finditer(r"^#define\s+([A-Z][A-Za-z0-9_]+)[ \t]+([^\n/]+?)[ \t]*(?:/\*.*)?$", txt, re.M):
        defs.setdefault(m.group(1), m.group(2).strip())

    def ev(expr, depth=0):
        expr = expr.strip()
        if depth > 6:
            return None
        if re.fullmatch(r"0[xX][0-9a-fA-F]+|\d+", expr):
            return int(expr, 0)
        if re.fullmatch(r"[A-Z][A-Za-z0-9_]+", expr):
            return ev(defs[expr], depth + 1) if expr in defs else None
        m = re.fullmatch(r"\(\s*([A-Z][A-Za-z0-9_]+)\s*\+\s*(0[xX][0-9a-fA-F]+|\d+)\s*\)", expr)
        if m:
            a = ev(m.group(1), depth + 1)
            return None if a is None else a + int(m.group(2), 0)
        return None
    em = {}
    for k, v in defs.items():
        if k.startswith("EM_"):
            x = ev(v)
            if x is not None:
                em[k[3:]] = x
    fam = {}
    for k, v in defs.items():
        m = re.match(r"(STT|STB|STV)_(.+)$", k)
        if not m:
            continue
        x = ev(v)
        if x is None or m.group(2) in ("LOOS", "HIOS", "LOPROC", "HIPROC", "NUM"):
            continue
        arch = None
        for a in em:
            if m.group(2).startswith(a + "_"):
                arch = a
        fam.setdefault((m.group(1), arch), {}).setdefault(x, []).append(k)
    _names = (em, fam)
    return _names


def expected_names(family, machine, code):
    """The names elf.h gives CODE in FAMILY for a file of MACHINE: machine-specific ones take precedence."""
    em, fam = elf_names()
    archs = [a for a, n in em.items() if n == machine]
    for a in archs:
        names = fam.get((family, a), {}).get(code)
        if names:
            return names
    return fam.get((family, None), {}).get(code, [])
