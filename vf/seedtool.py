#!/usr/bin/env python3
"""Handling of seeded breaking changes (/verif/seeded/<id>/: patch.diff, demo, meta.json).

  seedtool.py import <worktree>/<seedN> <id> <property>   copy an agent's deliverable into /verif/seeded/<id>
  seedtool.py verify <id> [<scratch>]     confirm in a scratch worktree of /repo (outside /repo and /verif) that the patch
                                          applies, compiles, passes the existing tests, and that the demonstration fails
                                          with it and passes without it
  seedtool.py detect <id> [Cxx ...]       apply the patch to /repo, run the quick checks (default: the seed's property),
                                          undo the patch; record in meta.json which checks raised which violation keys
"""
import json, os, re, shutil, subprocess, sys, time

VERIF = os.path.dirname(os.path.dirname(os.path.abspath(__file__)))
SEEDED = os.path.join(VERIF, "seeded")
REPO = os.environ.get("VERIF_REPO", "/repo")


def sh(cmd, cwd=None, timeout=3600, env=None):
    p = subprocess.run(cmd, cwd=cwd, shell=isinstance(cmd, str), stdout=subprocess.PIPE, stderr=subprocess.STDOUT, text=True, timeout=timeout, env=env)
    return p.returncode, p.stdout


def load_meta(sid):
    p = os.path.join(SEEDED, sid, "meta.json")
    return json.load(open(p)) if os.path.exists(p) else {}


def save_meta(sid, meta):
    with open(os.path.join(SEEDED, sid, "meta.json"), "w") as f:
        json.dump(meta, f, indent=1)


def cmd_import(src, sid, prop):
    dst = os.path.join(SEEDED, sid)
    os.makedirs(dst, exist_ok=True)
    for f in os.listdir(src):
        s = os.path.join(src, f)
        if os.path.isfile(s) and os.path.getsize(s) < 2000000:
            shutil.copy(s, os.path.join(dst, f))
    notes = open(os.path.join(dst, "notes.txt")).read() if os.path.exists(os.path.join(dst, "notes.txt")) else ""
    meta = load_meta(sid)
    meta.update({"id": sid, "breaks_property": prop, "origin": "independent sub-agent given only the property text and a scratch worktree",
                 "needs_to_manifest": notes.strip()[:1500]})
    save_meta(sid, meta)
    print("imported", sid)


def build(wt, bdir):
    if not os.path.exists(os.path.join(bdir, "Makefile")):
        rc, out = sh(["cmake", "-G", "Unix Makefiles", "-S", wt, "-B", bdir, "-DCMAKE_BUILD_TYPE=RelWithDebInfo"])
        if rc:
            return rc, out
        os.makedirs(os.path.join(bdir, "libzwerg"), exist_ok=True)
        shutil.copy(os.path.join(wt, "libzwerg", "libzwerg.map"), os.path.join(bdir, "libzwerg"))
    return sh(["make", "-C", bdir, "-j8"])


def run_tests(wt, bdir):
    rc, out = sh(["ctest", "--test-dir", bdir, "-j8", "--timeout", "900"])
    failed = re.findall(r"^\s*\d+ - (\S+) \(", out, re.M)
    env = dict(os.environ, LD_LIBRARY_PATH=os.path.join(bdir, "libzwerg"), ZW_TEST_TIMEOUT="20")
    rc2, out2 = sh(["bash", os.path.join(wt, "tests", "tests.sh"), os.path.join(bdir, "dwgrep", "dwgrep")], env=env, timeout=3000)
    m = re.search(r"(\d+) tests total, (\d+) failures", out2)
    return dict(ctest_failed=failed, tests_sh=(m.group(0) if m else out2[-200:]))


def run_demo(sid, wt, bdir):
    demo = os.path.join(SEEDED, sid, "demo.sh")
    env = dict(os.environ, LD_LIBRARY_PATH=os.path.join(bdir, "libzwerg"))
    # demos were written relative to the agent's worktree: run from a copy of the seed directory inside the scratch worktree
    d = os.path.join(wt, "seedrun")
    shutil.rmtree(d, ignore_errors=True)
    shutil.copytree(os.path.join(SEEDED, sid), d)
    rc, out = sh(["bash", os.path.join(d, "demo.sh"), bdir], cwd=wt, env=env, timeout=900)
    shutil.rmtree(d, ignore_errors=True)
    return rc, out[-1500:]


def cmd_verify(sid, scratch=None):
    scratch = scratch or "/tmp/sv-%s" % sid
    meta = load_meta(sid)
    patch = os.path.join(SEEDED, sid, "patch.diff")
    fresh = not os.path.exists(scratch)
    if fresh:
        rc, out = sh(["git", "-C", REPO, "worktree", "add", "--detach", scratch, "HEAD"])
        if rc:
            print(out); return 2
    bdir = os.path.join(scratch, "_b")
    res = {"scratch": scratch, "repo_head": sh(["git", "-C", REPO, "rev-parse", "--short", "HEAD"])[1].strip()}
    try:
        sh(["git", "-C", scratch, "checkout", "--", "."])
        rc, out = build(scratch, bdir)
        if rc:
            print(out[-2000:]); res["error"] = "pristine build failed"; return 2
        res["pristine_tests"] = run_tests(scratch, bdir)
        rc, out = run_demo(sid, scratch, bdir)
        res["demo_on_pristine"] = dict(rc=rc, tail=out[-400:])
        rc, out = sh(["git", "-C", scratch, "apply", patch])
        if rc:
            res["error"] = "patch does not apply: " + out[-300:]
            return 2
        rc, out = build(scratch, bdir)
        res["compiles_with_patch"] = rc == 0
        if rc == 0:
            res["patched_tests"] = run_tests(scratch, bdir)
            rc, out = run_demo(sid, scratch, bdir)
            res["demo_with_patch"] = dict(rc=rc, tail=out[-400:])
        sh(["git", "-C", scratch, "checkout", "--", "."])
        res["confirmed"] = bool(res.get("compiles_with_patch") and res["demo_on_pristine"]["rc"] == 0 and res.get("demo_with_patch", {}).get("rc", 0) != 0
                                and res["patched_tests"] == res["pristine_tests"])
    finally:
        meta["verification"] = res
        meta["what_was_run"] = "scratch worktree of /repo HEAD: cmake Unix Makefiles RelWithDebInfo build, ctest + bash tests/tests.sh, demo.sh on pristine (must pass), " \
                               "git apply patch.diff, rebuild, same tests (must be unchanged), demo.sh (must fail)"
        save_meta(sid, meta)
        if fresh:
            sh(["git", "-C", REPO, "worktree", "remove", "--force", scratch])
    print(sid, "confirmed" if res.get("confirmed") else "NOT CONFIRMED", json.dumps({k: v for k, v in res.items() if k not in ("scratch",)})[:600])
    return 0 if res.get("confirmed") else 1


def cmd_detect(sid, checks):
    meta = load_meta(sid)
    patch = os.path.join(SEEDED, sid, "patch.diff")
    checks = checks or [meta["breaks_property"]]
    rc, out = sh(["git", "-C", REPO, "status", "--porcelain", "--untracked-files=no"])
    if out.strip():
        print("refusing: /repo has local modifications"); return 2
    rc, out = sh(["git", "-C", REPO, "apply", patch])
    if rc:
        print("patch does not apply to /repo:", out); return 2
    det = meta.setdefault("detection", {})
    try:
        for c in checks:
            t0 = time.time()
            rc, out = sh([sys.executable, os.path.join(VERIF, "vf", "check.py"), c, "--tier", "quick"], cwd=VERIF, timeout=7200)
            keys = re.findall(r"^\s+(\d+) x (.*)$", out, re.M)
            det[c] = {"exit": rc, "caught": rc == 1, "violation_keys": ["%s x %s" % (n, k[:160]) for n, k in keys[:8]], "wall_s": round(time.time() - t0)}
            print(sid, c, "exit", rc, "CAUGHT" if rc == 1 else "MISSED", [k[:100] for _, k in keys[:3]])
    finally:
        sh(["git", "-C", REPO, "checkout", "--", "."])
        save_meta(sid, meta)
    return 0


def cmd_table():
    """Markdown table for DESIGN.md section 10."""
    print("| seed | breaks | change (file: what) | confirmed | caught by (quick tier) | first violation keys |")
    print("|---|---|---|---|---|---|")
    for sid in sorted(os.listdir(SEEDED)):
        m = load_meta(sid)
        if not m:
            continue
        patch = open(os.path.join(SEEDED, sid, "patch.diff")).read()
        files = sorted(set(re.findall(r"^\+\+\+ b/(\S+)", patch, re.M)))
        what = (m.get("summary") or m.get("needs_to_manifest", "").split("\n")[0])[:150].replace("|", "\\|")
        ver = m.get("verification", {})
        conf = "yes" if ver.get("confirmed") else ("tests.sh differs" if ver.get("compiles_with_patch") else "?")
        det = m.get("detection", {})
        caught = [c for c, d in det.items() if d.get("caught")]
        missed = [c for c, d in det.items() if not d.get("caught")]
        keys = []
        for c in caught:
            keys += [k.split(" x ", 1)[1][:70] for k in det[c]["violation_keys"][:2]]
        print("| %s | %s | %s: %s | %s | %s%s | %s |" % (sid, m.get("breaks_property"), ", ".join(files), what, conf, ", ".join(caught) or "-",
              (" (missed by: %s)" % ", ".join(missed)) if missed else "", "; ".join("`%s`" % k.replace("|", "\\|").replace("`", "'") for k in keys[:3])))
    return 0


def main(argv):
    if argv[1] == "table":
        return cmd_table()
    if argv[1] == "import":
        return cmd_import(argv[2], argv[3], argv[4])
    if argv[1] == "verify":
        return cmd_verify(argv[2], argv[3] if len(argv) > 3 else None)
    if argv[1] == "detect":
        return cmd_detect(argv[2], argv[3:])
    print(__doc__)
    return 2


if __name__ == "__main__":
    sys.exit(main(sys.argv))
