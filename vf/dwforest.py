"""Random DWARF forests (on top of vf/dwgen.py) together with the views the documentation
defines on them: the raw view (C02), navigation (C05) and the cooked view (C06).  The
expected values are computed from the in-memory model the bytes were produced from."""
import random
from vf.dwgen import Die, Unit, Forest, DW_TAG, DW_AT, DW_FORM, atcode, formcode, walk

PLAIN_TAGS = ["namespace", "structure_type", "subprogram", "variable", "typedef", "lexical_block", "member", "formal_parameter", "base_type",
              "enumeration_type", "enumerator", "class_type", "union_type", "pointer_type", "const_type", "label", "module"]


def rand_attrs(rng, version, name=None):
    attrs = []
    if name is not None or rng.random() < 0.7:
        nm = name or ("n%d" % rng.randint(0, 99)).encode()
        attrs.append(("name", rng.choice(["string", "strp"] + (["line_strp"] if version >= 5 else [])), nm))
    pool = [("decl_line", "data1", rng.randint(0, 255)), ("decl_line", "udata", rng.randint(0, 70000)), ("decl_file", "data1", rng.randint(0, 3)),
            ("byte_size", "data2", rng.randint(0, 65535)), ("external", "flag", rng.random() < 0.5), ("artificial", "flag", True),
            ("decl_column", "data1", rng.randint(0, 200)), ("accessibility", "data1", rng.randint(1, 3)), ("low_pc", "addr", rng.getrandbits(40)),
            ("const_value", "sdata", rng.randint(-1000, 1000)), ("const_value", "udata", rng.randint(0, 1 << 40)), ("upper_bound", "udata", rng.randint(0, 9)),
            ("linkage_name", "string", b"_Z" + bytes([rng.randint(97, 122)]) * rng.randint(1, 5)), ("alignment", "udata", 8), ("bit_size", "data1", 3),
            ("data_member_location", "udata", rng.randint(0, 64)), ("inline", "data1", rng.randint(0, 3)), ("prototyped", "flag", True)]
    if version >= 4:
        pool += [("external", "flag_present", None), ("declaration", "flag_present", None), ("high_pc", "data4", rng.randint(0, 1000)),
                 ("stmt_list", "sec_offset", 0)]
    if version >= 5:
        pool += [("decl_line", "implicit_const", rng.randint(0, 300)), ("byte_size", "data16", bytes(range(16))),
                 ("decl_line", "implicit_const", 0), ("decl_column", "implicit_const", rng.choice([0, 1, 127, 128, 300])),
                 ("const_value", "implicit_const", rng.choice([0, -1, 63, 64, -64, -65, 300, -300])), ("bit_size", "implicit_const", rng.randint(0, 70))]
    used = {"name"}
    for _ in range(rng.randint(0, 4)):
        a = rng.choice(pool)
        if a[0] not in used:
            used.add(a[0])
            if rng.random() < 0.07 and a[1] not in ("implicit_const",):
                a = (a[0], "indirect", (a[1], a[2]))
            attrs.append(a)
    if rng.random() < 0.04:
        # a DIE with MANY attributes (around 16 and 32, where a reader that fetches them in batches would stumble)
        want = rng.choice([15, 16, 17, 31, 32, 33, 40])
        many = [("decl_file", "data1", 1), ("decl_column", "data1", 7), ("byte_size", "data1", 4), ("bit_size", "data1", 3), ("artificial", "flag", True),
                ("accessibility", "data1", 1), ("upper_bound", "udata", 9), ("lower_bound", "udata", 1), ("alignment", "udata", 8), ("inline", "data1", 1),
                ("prototyped", "flag", True), ("call_line", "data1", 3), ("call_column", "data1", 4), ("call_file", "data1", 1), ("count", "udata", 2),
                ("byte_stride", "data1", 4), ("bit_stride", "data1", 3), ("start_scope", "udata", 1), ("is_optional", "flag", True), ("visibility", "data1", 1),
                ("virtuality", "data1", 1), ("calling_convention", "data1", 1), ("identifier_case", "data1", 1), ("ordering", "data1", 1), ("mutable", "flag", True),
                ("threads_scaled", "flag", True), ("explicit", "flag", True), ("elemental", "flag", True), ("pure", "flag", True), ("recursive", "flag", True),
                ("main_subprogram", "flag", True), ("const_expr", "flag", True), ("enum_class", "flag", True), ("noreturn", "flag", True),
                ("description", "string", b"d"), ("picture_string", "string", b"p"), ("decimal_scale", "data1", 2), ("digit_count", "data1", 5),
                ("decimal_sign", "data1", 1), ("endianity", "data1", 1), ("allocated", "udata", 1), ("associated", "udata", 1), ("linkage_name", "string", b"_Zf"),
                ("decl_line", "data1", 5), ("external", "flag", True), ("data_bit_offset", "udata", 3)]
        rng.shuffle(many)
        for a in many:
            if len(attrs) >= want:
                break
            if a[0] not in used:
                used.add(a[0])
                attrs.append(a)
    return attrs


def rand_tree(rng, version, depth, maxdepth, budget):
    """A DIE with random children.  BUDGET is a mutable [remaining] DIE count."""
    tag = rng.choice(PLAIN_TAGS)
    d = Die(tag, rand_attrs(rng, version))
    if depth < maxdepth and budget[0] > 0 and rng.random() < 0.75:
        n = rng.choice([1, 1, 2, 2, 3, 5])
        for _ in range(n):
            if budget[0] <= 0:
                break
            budget[0] -= 1
            d.children.append(rand_tree(rng, version, depth + 1, maxdepth, budget))
    elif rng.random() < 0.2:
        d.has_children = True        # abbreviation claims children, there are none
    return d


def gen_forest(rng, shape=None, siblings=True):
    """Structural forest with partial-unit imports.  Returns Forest."""
    shape = shape or rng.choice(["plain", "plain", "imports", "imports", "deep", "empty", "many", "chain"])
    units = []
    partials = []
    ncu = {"plain": rng.randint(1, 3), "imports": rng.randint(1, 3), "deep": 1, "empty": rng.randint(1, 3), "many": rng.randint(4, 8), "chain": 1}[shape]
    npart = rng.randint(1, 3) if shape == "imports" else (rng.randint(0, 1) if shape == "many" else 0)
    shared_tab = rng.random() < 0.4

    def mk_unit(kind, idx):
        version = rng.choice([2, 3, 4, 4, 5, 5])
        # a unit that is not a partial unit need not be a DW_TAG_compile_unit (type units, skeleton units): it is a unit like any other
        # (DWARF 5 only: there the header says what kind of unit it is; in older versions libdw infers a type-unit header from the tag)
        tag = "partial_unit" if kind == "p" else ("compile_unit" if (version < 5 or rng.random() < 0.75) else rng.choice(["type_unit", "skeleton_unit"]))
        root = Die(tag, rand_attrs(rng, version, name=("%s%d.c" % (kind, idx)).encode()))
        if (shape == "empty" and rng.random() < 0.6) or (kind == "p" and rng.random() < 0.2):
            # root only; also partial units without children (their imports contribute nothing)
            if rng.random() < 0.5:
                root.has_children = True
        elif shape == "deep":
            cur = root
            for i in range(rng.randint(20, 120)):
                c = Die(rng.choice(["lexical_block", "namespace", "structure_type"]), rand_attrs(rng, version))
                cur.children.append(c)
                if rng.random() < 0.3:
                    cur.children.append(Die("variable", rand_attrs(rng, version)))
                cur = c
        elif shape == "chain":
            for i in range(rng.randint(30, 200)):
                root.children.append(Die("variable", rand_attrs(rng, version), has_children=(True if i % 17 == 0 else None)))
        else:
            budget = [rng.randint(3, 40)]
            for _ in range(rng.randint(1, 5)):
                root.children.append(rand_tree(rng, version, 1, rng.randint(1, 5), budget))
        u = Unit(root, version, addr_size=8, abbrev_table=("shared" if shared_tab and rng.random() < 0.7 else None))
        return u
    for i in range(npart):
        u = mk_unit("p", i)
        # a partial unit may import earlier partial units (acyclic, nested imports)
        for j in range(i):
            if rng.random() < 0.5:
                place_import(rng, u.root, partials[j].root)
        partials.append(u)
    cus = []
    for i in range(ncu):
        u = mk_unit("c", i)
        for pu in partials:
            for _ in range(rng.choice([0, 1, 1, 2])):
                place_import(rng, u.root, pu.root)
        cus.append(u)
    units = partials + cus
    rng.shuffle(units) if rng.random() < 0.3 and not partials else None
    if shape == "empty":
        # header-only units (no DIE at all) before, between and after ordinary ones
        for _ in range(rng.randint(1, 3)):
            units.insert(rng.randint(0, len(units)), Unit(None, rng.choice([2, 3, 4, 5])))
    if partials and rng.random() < 0.5:
        units = cus[:1] + partials + cus[1:]      # partial units in the middle of the section
    if siblings:
        add_siblings(rng, units)
    f = Forest(units)
    if rng.random() < 0.3:
        f.abbrev_decl_seed = rng.getrandbits(30)     # abbreviations declared out of code order: no view may depend on that
    if rng.random() < 0.3:
        f.abbrev_code_style = rng.choice(["high", "huge"])     # abbreviation codes that need two or three ULEB128 bytes
    return f


def place_import(rng, root, target_root):
    """Insert a DW_TAG_imported_unit somewhere in ROOT's tree (top level mostly)."""
    imp = Die("imported_unit", [("import_", "ref_addr", target_root)])
    holder = root
    if rng.random() < 0.3:
        cands = [d for d in walk(root) if d.tag in (DW_TAG["namespace"], DW_TAG["structure_type"], DW_TAG["lexical_block"]) and d.flag() or d is root]
        holder = rng.choice(cands)
        if not holder.flag():
            holder = root
    holder.children.insert(rng.randint(0, len(holder.children)), imp)
    holder.has_children = None if holder.children else holder.has_children


def add_siblings(rng, units):
    """DW_AT_sibling on some DIEs (mostly ones that have children, now and then a childless one), pointing at the next sibling."""
    for u in units:
        if u.root is None:
            continue
        for d in walk(u.root):
            for i, c in enumerate(d.children[:-1]):
                if (c.children or rng.random() < 0.2) and rng.random() < 0.3 and c.at("sibling") is None:
                    c.attrs.insert(0, ("sibling", "ref4", d.children[i + 1]))


# ----------------------------------------------------------------- expected views
def raw_listing(forest):
    """[(unit root offset, [(offset, tag, parent offset|-1, has_children, [(at, form)])...])] in section order."""
    out = []
    for u in forest.units:
        dies = []
        if u.root is None:
            out.append((None, u.version, []))     # header-only unit: nothing to enumerate
            continue
        for d in walk(u.root):
            dies.append((d.offset, d.tag, d.parent.offset if d.parent is not None else -1, d.flag(), [attr_pair(a, f, v) for a, f, v in d.attrs]))
        out.append((u.root.offset, u.version, dies))
    return out


def attr_pair(a, f, v):
    fc = formcode(f)
    if fc == DW_FORM["indirect"]:
        fc = formcode(v[0])       # the attribute's own form is the actual one
    return (atcode(a), fc)


def import_target(d):
    if d.tag == DW_TAG["imported_unit"]:
        a = d.at("import_")
        if a is not None and isinstance(a[2], Die):
            return a[2]
    return None


def cooked_children(d, route=()):
    """[(die, route)] -- raw children with every imported unit replaced, recursively and in place,
    by the children of the imported root; ROUTE = offsets of the DW_TAG_imported_unit DIEs, innermost first."""
    out = []
    for c in d.children:
        t = import_target(c)
        if t is not None:
            out += cooked_children(t, (c.offset,) + route)
        else:
            out.append((c, route))
    return out


def cooked_preorder(d, route=()):
    out = [(d, route)]
    for c, r in cooked_children(d, route):
        out += cooked_preorder(c, r)
    return out


def cooked_units(forest):
    return [u for u in forest.units if u.root is not None and u.root.tag != DW_TAG["partial_unit"]]


# ------------------------------------------------- specification / abstract_origin chains
INHERITABLE = [("decl_line", "data1"), ("decl_line", "udata"), ("decl_column", "data1"), ("external", "flag"), ("linkage_name", "string"),
               ("accessibility", "data1"), ("byte_size", "data1"), ("artificial", "flag"), ("inline", "data1"), ("prototyped", "flag"), ("alignment", "udata"),
               # vendor attributes and the standard ones they share the low byte of their code with (0x2117 / 0x17, 0x2134 / 0x34, 0x2107 / 0x07...)
               ("GNU_all_call_sites", "flag"), ("visibility", "data1"), ("GNU_pubnames", "flag"), ("GNU_all_tail_call_sites", "flag"), ("discr_value", "data1"),
               ("MIPS_linkage_name", "string"), ("GNU_vector", "flag"), ("GNU_deleted", "flag")]


def rand_inh_attrs(rng, version, with_name, forbid=()):
    attrs = []
    if with_name:
        attrs.append(("name", rng.choice(["string", "strp"]), ("f%d" % rng.randint(0, 999)).encode()))
    for a, f in rng.sample(INHERITABLE, rng.randint(0, 5)):
        if a in [x[0] for x in attrs] or a in forbid:
            continue
        v = rng.randint(0, 200) if f in ("data1", "udata") else (rng.random() < 0.5 if f == "flag" else b"_Zx%d" % rng.randint(0, 99))
        if a in ("accessibility",):
            v = rng.randint(1, 3)
        if a in ("inline", "visibility"):
            v = rng.randint(0, 3)
        attrs.append((a, f, v))
    return attrs


def add_inheritance(rng, forest, both_prob=0.0):
    """Append chains D0 -(origin/specification)-> D1 -> ... to the compile units.  With BOTH_PROB a DIE carries
    both references (the branches then define disjoint attribute sets unless both_prob is exactly 1.0)."""
    chains = []
    cus = [u for u in forest.units if u.root.tag == DW_TAG["compile_unit"]]
    for u in cus:
        # base types of both signednesses: the value of a DW_AT_const_value in a data form depends on the type of the
        # DIE it is read through, so a value integrated along a chain shows WHICH DIE's context was used
        bases = [Die("base_type", [("name", "string", nm), ("byte_size", "data1", sz), ("encoding", "data1", enc)])
                 for nm, sz, enc in rng.sample([(b"sc", 1, 6), (b"uc", 1, 8), (b"si", 4, 5), (b"ui", 4, 7), (b"ss", 2, 5), (b"us", 2, 7)], rng.randint(2, 4))]
        for b in bases:
            u.root.children.insert(rng.randint(0, len(u.root.children)), b)
        for _ in range(rng.randint(1, 4)):
            n = rng.randint(0, 4)
            dies = []
            typed = rng.random() < 0.5
            for k in range(n + 1):
                last = (k == n)
                attrs = rand_inh_attrs(rng, u.version, with_name=(last or rng.random() < 0.3))
                if typed and rng.random() < 0.5:
                    attrs.insert(rng.randint(0, len(attrs)), ("type", "ref4", rng.choice(bases)))
                if typed and rng.random() < 0.35:
                    f = rng.choice(["data1", "data2"])
                    attrs.insert(rng.randint(0, len(attrs)), ("const_value", f, rng.randint(0x80, 0xff) if f == "data1" else rng.randint(0x8000, 0xffff)))
                if last and rng.random() < 0.7:
                    attrs.append(("declaration", "flag_present" if u.version >= 4 else "flag", None if u.version >= 4 else True))
                dies.append(Die("subprogram" if k else rng.choice(["subprogram", "inlined_subroutine", "variable"]), attrs))
            for k in range(n):
                ref = rng.choice(["specification", "abstract_origin"])
                pos = rng.randint(0, len(dies[k].attrs))
                dies[k].attrs.insert(pos, (ref, rng.choice(["ref4", "ref4", "ref_udata", "ref_addr"]), dies[k + 1]))
            if n >= 1 and rng.random() < both_prob:
                # a second branch off the head
                other_ref = "specification" if dies[0].at("specification") is None else "abstract_origin"
                have = set(atcode(a) for d in dies for a, _, _ in d.attrs)
                forbid = [a for a, _ in INHERITABLE if DW_AT[a] in have] if both_prob < 1.0 else []
                extra = Die("subprogram", rand_inh_attrs(rng, u.version, with_name=(DW_AT["name"] not in have or both_prob >= 1.0), forbid=forbid))
                dies[0].attrs.append((other_ref, "ref4", extra))
                dies.append(extra)
            order = list(dies)
            rng.shuffle(order)
            for d in order:
                u.root.children.insert(rng.randint(0, len(u.root.children)), d)
            u.root.has_children = None
            chains.append(dies)
    return chains


def reachable_sources(d):
    """DIEs reachable from D through specification/abstract_origin (D excluded), and whether the
    reference graph branches anywhere (some DIE carries both references)."""
    out = []
    visited = {id(d)}
    branching = False
    frontier = [d]
    while frontier:
        nxt = []
        for x in frontier:
            refs = [v for a, f, v in x.attrs if atcode(a) in (DW_AT["specification"], DW_AT["abstract_origin"]) and isinstance(v, Die)]
            if len(refs) > 1:
                branching = True
            for v in refs:
                if id(v) not in visited:
                    visited.add(id(v))
                    nxt.append(v)
                    out.append(v)
        frontier = nxt
    return out, branching


def cooked_attrs(d):
    """(own [(at, form)], integrated [(at, form, source offset)], ambiguous names) per the documentation: own attributes,
    then those reachable through specification/abstract_origin that it lacks; never sibling/declaration; never a name
    twice.  On a linear chain the nearest definition is the one both a depth-first and a breadth-first reading agree
    on; where the reference graph branches and several reachable DIEs define a lacking name, the statement does not
    say which one supplies it: those names are returned as ambiguous (their presence is still required)."""
    own = [attr_pair(a, f, v) for a, f, v in d.attrs]
    seen = set(a for a, _ in own)
    sources, branching = reachable_sources(d)
    integ = {}
    count = {}
    for t in sources:
        for a, f, v in t.attrs:
            ac, fc = attr_pair(a, f, v)
            if ac in (DW_AT["sibling"], DW_AT["declaration"]) or ac in seen:
                continue
            count[ac] = count.get(ac, 0) + 1
            if ac not in integ:
                integ[ac] = (ac, fc, t.offset)
    amb = set(ac for ac, n in count.items() if n > 1 and branching)
    return own, list(integ.values()), amb


def nearest_value(d, name):
    """The (form, value) a cooked @AT_name sees: own, else the nearest one along the reference chain; None if absent
    or if the reference graph branches and several reachable DIEs define it."""
    code = DW_AT[name]
    own = [(f, v) for a, f, v in d.attrs if atcode(a) == code]
    if own:
        return own[0]
    sources, branching = reachable_sources(d)
    found = [(f, v) for t in sources for a, f, v in t.attrs if atcode(a) == code]
    if not found or (branching and len(found) > 1):
        return None
    return found[0]
