"""Independent decoding of .debug_info with llvm-dwarfdump-14 -v (for compiler output and samples)."""
import re, subprocess

HDR = None


def header_constants():
    global HDR
    if HDR is None:
        HDR = {}
        txt = open("/usr/include/dwarf.h").read()
        for m in re.finditer(r"^\s*(DW_[A-Za-z0-9_]+)\s*=\s*(0x[0-9a-fA-F]+|\d+)", txt, re.M):
            HDR.setdefault(m.group(1), int(m.group(2), 0))
    return HDR


def code(name, prefix):
    h = header_constants()
    if name in h:
        return h[name]
    m = re.match(r"%s_unknown_([0-9a-fA-F]+)$" % prefix, name)
    if m:
        return int(m.group(1), 16)
    return None


def dump_info(path):
    """Returns (units, ok).  units: [dict(offset, version, abbr_offset, addr_size, dies=[...])]"""
    p = subprocess.run(["llvm-dwarfdump-14", "--debug-info", "-v", path], stdout=subprocess.PIPE, stderr=subprocess.PIPE, timeout=600)
    text = p.stdout.decode("utf-8", "replace")
    units = []
    cur = None
    die = None
    unknown = 0
    for line in text.split("\n"):
        m = re.match(r"0x([0-9a-f]+): (?:Compile|Type|Partial|Skeleton|\w+) Unit: length = 0x([0-9a-f]+),.*version = 0x([0-9a-f]+),(?: unit_type = (\w+),)?"
                     r" abbr_offset = 0x([0-9a-f]+), addr_size = 0x([0-9a-f]+)", line)
        if m:
            cur = dict(offset=int(m.group(1), 16), version=int(m.group(3), 16), abbr_offset=int(m.group(5), 16), addr_size=int(m.group(6), 16), dies=[])
            units.append(cur)
            die = None
            continue
        m = re.match(r"0x([0-9a-f]+): ( *)(DW_TAG_\w+) \[(\d+)\] (\*)?\s*(?:\(0x([0-9a-f]+)\))?", line)
        if m and cur is not None:
            t = code(m.group(3), "DW_TAG")
            if t is None:
                unknown += 1
            die = dict(offset=int(m.group(1), 16), depth=len(m.group(2)) // 2, tag=t, abbrev=int(m.group(4)), has_children=bool(m.group(5)),
                       parent=int(m.group(6), 16) if m.group(6) else None, attrs=[])
            cur["dies"].append(die)
            continue
        m = re.match(r"\s+(DW_AT_\w+) \[(DW_FORM_\w+)\]", line)
        if m and die is not None:
            a, f = code(m.group(1), "DW_AT"), code(m.group(2), "DW_FORM")
            if a is None or f is None:
                unknown += 1
            die["attrs"].append((a, f))
    return units, (p.returncode == 0 and unknown == 0)


def altlink(path):
    """Path of the supplementary (dwz) file named by .gnu_debugaltlink, or None."""
    p = subprocess.run(["readelf", "-p", ".gnu_debugaltlink", path], stdout=subprocess.PIPE, stderr=subprocess.PIPE)
    m = re.search(r"\[\s*0\]\s+(\S+)", p.stdout.decode("utf-8", "replace"))
    if not m:
        return None
    import os
    name = m.group(1)
    cand = name if os.path.isabs(name) else os.path.join(os.path.dirname(os.path.abspath(path)), name)
    return cand if os.path.exists(cand) else "missing:" + name


def dump_values(path):
    """{die offset: [(at code, form code, parsed)]} where parsed is ('str', bytes) | ('ref', offset) | ('flag', bool)
    | ('num', int) | ('named', 'DW_X_y') | None when the dumper's rendering is not understood."""
    p = subprocess.run(["llvm-dwarfdump-14", "--debug-info", "-v", path], stdout=subprocess.PIPE, stderr=subprocess.PIPE, timeout=600)
    text = p.stdout.decode("utf-8", "replace")
    out = {}
    cur = None
    for line in text.split("\n"):
        m = re.match(r"0x([0-9a-f]+): ( *)(DW_TAG_\w+) \[(\d+)\]", line)
        if m:
            cur = out.setdefault(int(m.group(1), 16), [])
            continue
        m = re.match(r"\s+(DW_AT_\w+) \[(DW_FORM_\w+)\]\s*\((.*)\)\s*$", line)
        if not m or cur is None:
            if re.match(r"\s+DW_AT_\w+ \[DW_FORM_\w+\]", line) and cur is not None:
                mm = re.match(r"\s+(DW_AT_\w+) \[(DW_FORM_\w+)\]", line)
                cur.append((code(mm.group(1), "DW_AT"), code(mm.group(2), "DW_FORM"), None))
            continue
        a, f, body = code(m.group(1), "DW_AT"), code(m.group(2), "DW_FORM"), m.group(3).strip()
        form = m.group(2)
        val = None
        if form in ("DW_FORM_string", "DW_FORM_strp", "DW_FORM_line_strp", "DW_FORM_strx1", "DW_FORM_strx"):
            mm = re.search(r'"(.*)"$', body)
            if mm and "\\" not in mm.group(1):
                val = ("str", mm.group(1).encode("utf-8"))
        elif form.startswith("DW_FORM_ref") and form != "DW_FORM_ref_sig8":
            mm = re.search(r"=> \{0x([0-9a-f]+)\}", body)
            if mm:
                val = ("ref", int(mm.group(1), 16))
        elif form in ("DW_FORM_flag", "DW_FORM_flag_present"):
            if body in ("true", "false"):
                val = ("flag", body == "true")
            elif re.fullmatch(r"0x[0-9a-f]+", body):
                val = ("flag", int(body, 16) != 0)
        elif form in ("DW_FORM_data1", "DW_FORM_data2", "DW_FORM_data4", "DW_FORM_data8", "DW_FORM_udata", "DW_FORM_sdata", "DW_FORM_implicit_const", "DW_FORM_addr"):
            if re.fullmatch(r"0x[0-9a-f]+", body):
                val = ("num", int(body, 16))
            elif re.fullmatch(r"-?\d+", body):
                val = ("num", int(body))
            elif re.fullmatch(r"DW_[A-Za-z0-9_]+", body):
                val = ("named", body)
            elif body.startswith('"') and body.endswith('"'):
                val = ("file", body[1:-1])
        cur.append((a, f, val))
    return out
