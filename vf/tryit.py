import sys, random
sys.path.insert(0,'/verif')
from vf import zgen, zast, zmodel as M, common, zcmp
d=common.Driver()
seed=int(sys.argv[1]) if len(sys.argv)>1 else 5
N=int(sys.argv[2]) if len(sys.argv)>2 else 3000
rng=random.Random(seed)
stat={}
bad=0
for i in range(N):
    g=zgen.Gen(rng, maxdepth=rng.randint(1,4))
    n=g.program([])
    txt=zast.text(n)
    m=M.run(n)
    try:
        r=d.run(txt, fuel=300000)
    except common.DriverCrash as e:
        print("CRASH", txt, e.key); print(e.report[-1500:]); bad+=1; continue
    st=(m['status'], r['st'])
    stat[st]=stat.get(st,0)+1
    if m['status'] in ('indeterminate','budget'): continue
    ok=True
    if m['status']=='reject': ok = r['st']=='reject'
    elif m['status']=='error': ok = r['st']=='error'
    elif m['status']=='done':
        if r['st']!='done': ok=False
        else:
            try:
                er=[tuple(zcmp.from_engine(v) for v in s) for s in r['res']]
                ok=zcmp.results_match(m['results'], er, m['ordered'])
            except ValueError as e:
                ok=False
            if ok and not m['closure'] and (m['diag']>0) != (len(r['stderr'])>0): ok=False
    if not ok:
        bad+=1
        if bad<12:
            print("MISMATCH", txt); print("  model:", m['status'], m['msg'], m['diag'], [zcmp.show_stack(s) for s in m['results']][:8], 'ordered' if m['ordered'] else 'unordered')
            print("  engine:", r['st'], r.get('msg'), [zcmp.show_stack(tuple(zcmp.from_engine(v) for v in s)) for s in r.get('res',[])][:8], r['stderr'][:200])
print(stat, 'bad', bad)
