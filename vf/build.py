#!/usr/bin/env python3
"""Build /repo's current working tree in an instrumented variant under
/verif/build/<variant>, plus the /verif/drv drivers linked against its objects.

Always incremental: cmake-generated makefiles track sources, headers and flags.
A flock on the variant directory serialises concurrent checks."""
import fcntl, os, shutil, subprocess, sys, time, glob, hashlib

REPO = os.environ.get("VERIF_REPO", "/repo")
VERIF = os.path.dirname(os.path.dirname(os.path.abspath(__file__)))
BUILD = os.path.join(VERIF, "build")
GUARD = "DWGREP_VERIF"

VARIANTS = {
    "asan": dict(cxx="g++", cc="gcc",
                 flags="-O1 -g -fno-omit-frame-pointer -fsanitize=address,undefined "
                       "-fno-sanitize-recover=all -D%s" % GUARD),
    "vg": dict(cxx="g++", cc="gcc", flags="-O1 -g -D%s" % GUARD),
    "cov": dict(cxx="g++", cc="gcc", flags="-O0 -g --coverage -D%s" % GUARD),
    "fuzz": dict(cxx="clang++-14", cc="clang-14",
                 flags="-O1 -g -fno-omit-frame-pointer -fsanitize=fuzzer-no-link,address,undefined "
                       "-fno-sanitize=object-size,vptr,function -fno-sanitize-recover=all -D%s" % GUARD),
    # hooks off, for confirming that the guard really is inert
    "plain": dict(cxx="g++", cc="gcc", flags="-O1 -g"),
}


def log(*a):
    print("[build]", *a, file=sys.stderr, flush=True)


def run(cmd, cwd=None, quiet=True):
    r = subprocess.run(cmd, cwd=cwd, stdout=subprocess.PIPE, stderr=subprocess.STDOUT, text=True)
    if r.returncode != 0:
        sys.stderr.write(r.stdout[-8000:])
        raise SystemExit(2)
    return r.stdout


def objs(bdir):
    o = sorted(glob.glob(os.path.join(bdir, "libzwerg/CMakeFiles/LibzwergCore.dir/*.o")))
    o += sorted(glob.glob(os.path.join(bdir, "libzwerg/CMakeFiles/LibzwergDw.dir/*.o")))
    return o


def build(variant, drivers=True):
    v = VARIANTS[variant]
    bdir = os.path.join(BUILD, variant)
    os.makedirs(bdir, exist_ok=True)
    lock = open(os.path.join(bdir, ".lock"), "w")
    fcntl.flock(lock, fcntl.LOCK_EX)
    t0 = time.time()
    try:
        stamp = os.path.join(bdir, ".flags")
        want = v["cxx"] + " " + v["flags"] + " " + REPO
        if not os.path.exists(os.path.join(bdir, "Makefile")) or \
           not os.path.exists(stamp) or open(stamp).read() != want:
            for f in os.listdir(bdir):
                if f != ".lock":
                    p = os.path.join(bdir, f)
                    shutil.rmtree(p) if os.path.isdir(p) else os.unlink(p)
            run(["cmake", "-G", "Unix Makefiles", "-S", REPO, "-B", bdir,
                 "-DCMAKE_BUILD_TYPE=Verif",
                 "-DCMAKE_CXX_COMPILER=" + v["cxx"], "-DCMAKE_C_COMPILER=" + v["cc"],
                 "-DCMAKE_CXX_FLAGS_VERIF=" + v["flags"],
                 "-DCMAKE_C_FLAGS_VERIF=" + v["flags"],
                 "-DCMAKE_SHARED_LINKER_FLAGS_VERIF=" + v["flags"],
                 "-DCMAKE_EXE_LINKER_FLAGS_VERIF=" + v["flags"].replace("fuzzer-no-link,", "")])
            open(stamp, "w").write(want)
        # work around build-version-script.sh (dash's -ot is false for a missing file)
        mp = os.path.join(bdir, "libzwerg", "libzwerg.map")
        src = os.path.join(REPO, "libzwerg", "libzwerg.map")
        if not os.path.exists(mp) or open(mp).read() != open(src).read():
            os.makedirs(os.path.dirname(mp), exist_ok=True)
            shutil.copy(src, mp)
        targets = ["LibzwergCore", "LibzwergDw"]
        if variant in ("asan", "plain", "vg", "cov"):
            targets += ["libzwerg", "dwgrep"]
        run(["make", "-C", bdir, "-j16"] + targets)
        if drivers:
            build_drivers(variant, bdir, v)
    finally:
        fcntl.flock(lock, fcntl.LOCK_UN)
    log("%s ready in %.1fs" % (variant, time.time() - t0))
    return bdir


def newer(target, deps):
    if not os.path.exists(target):
        return True
    t = os.path.getmtime(target)
    return any(os.path.getmtime(d) > t for d in deps)


def build_drivers(variant, bdir, v):
    inc = ["-I", os.path.join(REPO, "libzwerg"), "-I", bdir, "-I", os.path.join(bdir, "libzwerg"), "-I", REPO]
    flags = v["flags"].split() + ["-std=c++14", "-Wall", "-Wno-unused-function"]
    drv = os.path.join(VERIF, "drv")
    out = os.path.join(bdir, "drv")
    os.makedirs(out, exist_ok=True)
    allobjs = objs(bdir)
    hdrs = glob.glob(os.path.join(REPO, "libzwerg/*.h*")) + glob.glob(os.path.join(drv, "*.hh"))
    jobs = []
    if variant == "fuzz":
        for name in ("fuzz_parse", "fuzz_exec"):
            src = os.path.join(drv, name + ".cc")
            if os.path.exists(src):
                tgt = os.path.join(out, name)
                if newer(tgt, [src] + allobjs + hdrs):
                    jobs.append([v["cxx"]] + flags + ["-fsanitize=fuzzer"] + inc + [src] + allobjs +
                                ["-ldw", "-lelf", "-o", tgt])
    else:
        src = os.path.join(drv, "zwdrv.cc")
        if os.path.exists(src):
            tgt = os.path.join(out, "zwdrv")
            if newer(tgt, [src] + allobjs + hdrs):
                jobs.append([v["cxx"]] + flags + inc + [src] + allobjs + ["-ldw", "-lelf", "-o", tgt])
        # unit harnesses that compile a repository source file directly
        for name, extra in (("intdrv", ["int.cc"]), ("covdrv", ["coverage.cc"])):
            src = os.path.join(drv, name + ".cc")
            if os.path.exists(src):
                tgt = os.path.join(out, name)
                deps = [src] + [os.path.join(REPO, "libzwerg", e) for e in extra] + hdrs
                if newer(tgt, deps):
                    jobs.append([v["cxx"]] + flags + inc + [src] +
                                [os.path.join(REPO, "libzwerg", e) for e in extra] + ["-o", tgt])
    procs = [(j, subprocess.Popen(j, stdout=subprocess.PIPE, stderr=subprocess.STDOUT, text=True)) for j in jobs]
    for j, p in procs:
        o, _ = p.communicate()
        if p.returncode != 0:
            sys.stderr.write(" ".join(j) + "\n" + o[-8000:])
            raise SystemExit(2)


if __name__ == "__main__":
    for var in (sys.argv[1:] or ["asan"]):
        print(build(var))
