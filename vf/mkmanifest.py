#!/usr/bin/env python3
"""Regenerates /verif/MANIFEST.json from the table below (single source of truth)."""
import json, os, subprocess
VERIF = os.path.dirname(os.path.dirname(os.path.abspath(__file__)))

CHECKS = {
    "C01": dict(
        technique="metamorphic stream-decomposition monitor + executable reference model over recorded result streams of generated programs (ASan/UBSan + state-lifecycle hooks)",
        category="exploration",
        text="For exhaustively enumerated small programs and seeded random typed ASTs nested in every construct/context pair, the real engine's "
             "result stream for a producer of several tagged input stacks is compared (a) with the union of its own results per single input stack "
             "(no model needed) and (b) with a naive state-free reference evaluator written from doc/syntax.rst: multisets always, sequences where "
             "the documentation fixes the order, presence of diagnostics.  Held on the executions counted in the evidence."
             " Also: streams in which an operand comes 'the same again' (patterns that compile, that cannot be compiled, that are not strings), and EQUAL input stacks in a row (no unique tag), incl. stacks that are equal once a binder has popped the value they differ in while the program reads that name in conditions.",
        note="Trusts vf/zmodel.py's reading of the documentation (DESIGN.md appendix A) for O1; O2 trusts nothing but the engine's determinism. "
             "Programs whose outcome the documentation leaves open are skipped and counted.",
        design="DESIGN.md 5-C01"),
    "C02": dict(
        technique="ground truth by construction (pure-Python ELF/DWARF writer) + independent decoding (llvm-dwarfdump -v) vs the engine's raw enumeration",
        category="exploration",
        text="Generated DIE forests (1-9 units, compile and partial, DWARF 2-5 headers, shared/private abbreviation tables with sparse codes, depth to 120, "
             "chains of 200 siblings, empty units, childless DIEs whose abbreviation claims children, sibling attributes, indirect/implicit_const/data16/"
             "line_strp forms), the repository's sample binaries (with dwz supplementary files) and objects freshly compiled by gcc and clang at several DWARF "
             "versions are enumerated through `raw unit`, `raw entry` and `raw unit root child*`; every unit and DIE must appear exactly once in section "
             "pre-order with its true offset, tag, parent, unit, child flag, position number and (attribute, form) list in stored order."
             " Each unit's own offset, the unit of its root and first child, parents asked for out of storage order and the children/attributes of `D parent` are compared too; forests include DWARF 5 type and skeleton units and abbreviations declared out of code order.",
        note="Generated files are known by construction and cross-checked against llvm-dwarfdump before use (a mismatch there is a harness failure); samples and compiler output trust llvm-dwarfdump.",
        design="DESIGN.md 5-C02"),
    "C03": dict(
        technique="scoping reference model + alpha-renaming / block-inlining metamorphic relations + expected compile errors, over generated binder-heavy programs",
        category="exploration",
        text="Generated programs with nested binders of all five kinds, shadowing (incl. names shadowing builtins), multi-yield let bodies and blocks "
             "capturing up-values are run on the real engine and compared with a lexical-scoping reference evaluator; every program is also re-run "
             "with all bound identifiers consistently renamed and with {B} apply replaced by the scoped body (results must be identical), and "
             "negative variants (unbound read, read moved out of each kind of scope, rebinding) must be rejected with a message naming the identifier."
             " Blocks nested up to four deep rebind outer names (by let or as scope parameters) above further nested blocks."
             ' Operands of infix assertions that bind names (each operand is a scope of its own) are generated with their must-be-rejected twins.',
        note="Trusts the scoping rules of doc/syntax.rst as encoded in vf/zmodel.py; names bound inside %( %) splices are not generated (plain context, undocumented scope).",
        design="DESIGN.md 5-C03"),
    "C04": dict(
        technique="metamorphic partition / identity relations on recorded result streams; full ?w/!w vocabulary sweep over typed operands",
        category="exploration",
        text="For generated producers P of tagged stacks and sub-expressions E (any stack effect, failing, multi-yield) and for `entry`-style producers over "
             "sample DWARF files with DWARF sub-expressions: results(P) must equal results(P ?(E)) plus results(P !(E)) as multisets of whole serialised stacks, "
             "infix forms may only yield stacks of P, `let` and `[E]` must reproduce every P stack unchanged the right number of times; every ?w/!w pair of the "
             "vocabulary (about 970) is applied to 24 operand kinds: unchanged-or-nothing, never both, neither iff a diagnostic."
             " The assertion forms are also run with binding blocks; positioned values and reads of bound names lie on every stack; operand tuples include overlapping address sets, invalid regular expressions and location expressions repeating an operation."
             ' Bodies made of assertions only (some not applicable to the operand), empty and wrapper-only bodies, and lone names bound to blocks that pop, reorder or yield 0/2 times are among the sub-expressions.',
        note="No model; both sides are runs of the engine.  Comparisons use the driver's canonical serialisation (values, domains, positions, DIE identity incl. import route).",
        design="DESIGN.md 5-C04"),
    "C05": dict(
        technique="algebraic navigation laws checked on recorded identities of every DIE (offset + file + mode + import route), and as zero-count in-language queries",
        category="exploration",
        text="For every DIE of every input (sample binaries, compiled objects, generated forests with partial units imported twice and nested up to four "
             "levels with deep content), in raw and cooked mode, the engine reports the DIE, its parent, children, root, end of the parent chain, ?root and unit; "
             "Python checks child/parent inverse, root = chain end = ?root, unit entry = entry, unit DIEs = root child*, unit of a DIE lists it, same-route "
             "DIEs identical; the same laws are run in the language and must report no counterexample."
             " The laws are also run on values that change view on the way (raw made cooked and back), and on forests with header-only units."
             ' ar archives of sample objects (one Dwarf value made of several modules, supplementary files resolvable) are among the inputs.',
        note="No model; identities come from the driver's serialisation of value_die (offset, ELF image size, raw/cooked, import chain).",
        design="DESIGN.md 5-C05"),
    "C06": dict(
        technique="ground truth by construction: expected cooked view computed from the forest model; word-pair equivalences on the engine alone",
        category="exploration",
        text="The forest model computes the expected cooked units, the cooked pre-order with import routes, every DIE's cooked child list and its attribute "
             "list (own attributes in stored order, then the set integrated through specification/abstract_origin chains of length 0-4 with shadowing; never "
             "sibling/declaration; no name twice) and the values seen through integration; @AT_x vs attribute ?AT_x cooked value, ?AT_x vs attribute ?AT_x "
             "and name vs @AT_name are compared for every DIE of generated, sample and compiled files and ~35 attribute names."
             " Chains carry typed DW_AT_const_value, vendor attributes whose codes share the low byte with standard ones, and the ?FORM_x / form == DW_FORM_x law is checked in both views.",
        note="Where the reference graph branches and several reachable DIEs define a lacking attribute, the statement does not say which supplies it: presence is "
             "checked, form/value are not.  Known finding S3 is matched by exactly that DIE shape.",
        design="DESIGN.md 5-C06"),
    "C07": dict(
        technique="ground truth by construction: decoding table over generated attribute instances (every form x boundary values x type encodings) vs the engine's values",
        category="exploration",
        text="Generated DIEs carry DW_AT_const_value in data1/2/4/8, sdata, udata, implicit_const and block forms at boundary values on variables, template value "
             "parameters and enumerators whose type is signed, unsigned, char, boolean, UTF, address, float, pointer, decltype(nullptr), struct, reached through "
             "typedef/const/volatile/restrict chains, and enumerations with and without underlying type; plus strings (string/strp/line_strp), flags, addresses, every "
             "reference form, enumerated attributes in and out of the named range, signed/unsigned/hex attribute classes, user attributes.  Each decoded value must have "
             "the expected kind, number, sign, domain and rendering (names from dwarf.h); uninterpretable cases (float/struct typed data, block for a pointer, ref_sig8, "
             "discr_value, unknown attribute, data16) must give an error, a diagnostic or a raw block, never a silent number."
             " Also: variables typed by enumerations, values integrated over one to three reference hops, DW_AT_ranges lists with base-address entries, and all ten location-class attributes in block and exprloc form."
             " DWARF 5 units also carry the indexed forms: names in strx/strx1-4 through .debug_str_offsets, addresses in addrx1-4 through .debug_addr (the ULEB128 DW_FORM_addrx, "
             "which the tool does not know, must be refused or give that address), DW_AT_ranges as rnglistx and as sec_offset into .debug_rnglists with every entry kind "
             "(offset_pair, base_address(x), start_end, start_length, startx_endx, startx_length), the *_base attributes as hexadecimal offsets; units of any version may carry "
             "DW_AT_macro_info whose entries (define, undef, start_file, end_file, vendor_ext) must come out one sequence per stored entry.",
        note="The decoding table encodes the statement plus the tool's documented fixed signedness for attributes like upper_bound; compiler objects are covered structurally by C02/C06.",
        design="DESIGN.md 5-C07"),
    "C08": dict(
        technique="exact big-integer oracle over recorded operator events (direct calls into int.cc + queries) under ASan/UBSan",
        category="exploration",
        text="Every operator/comparison outcome recorded from the real int.cc (all lattice pairs in both internal representations, "
             "seeded random 64-bit pairs) and from `A B op` queries and literals through libzwerg is compared with exact Python "
             "integer arithmetic; UBSan watches the signed arithmetic inside. Held on the executions listed in the evidence, not a proof.",
        note="Trusts Python integer arithmetic and the reading of the statement (floor division, remainder with divisor's sign). "
             "Unary minus on a signed non-negative representation is unreachable from the API and not judged.",
        design="DESIGN.md 5-C08"),
    "C09": dict(
        technique="offline algebraic-law checker over full relation matrices recorded from the engine (all pairs, all triples of a value pool)",
        category="exploration",
        text="Every comparison word, alias and infix form is executed by the real engine on every ordered pair of a ~150-value pool (integers in every arithmetic "
             "domain incl. positions and addresses, booleans, slot types, DW_* families and ELF symbol domains of several machines with equal numbers, strings with "
             "NUL/high bytes/prefixes, nested sequences, address sets, a closure, and DWARF values: the same DIE via three import routes, raw and route-less, units, "
             "attributes, abbreviations, symbols, location elements, the same file opened twice); Python then checks trichotomy, reflexivity, symmetry, transitivity "
             "over all triples, converse, alias agreement cell by cell, cross-type consistency, by-value order of arithmetic domains, bytewise strings, length-first sequences."
             " The pool holds constants 0-3 of every family the vocabulary offers (families taken from the words), closures with captured environments, strings differing only after a NUL, address sets 2^63 apart, location operations, and unit roots reached through different imports; cell (i,i) compares two copies of every value."
             ' The pool holds DIEs that came in through two and three nested imports and symbols of two files of different machines.',
        note="Laws are stated on relations, never on a particular order of unrelated values (which is by object address).  The whole matrix is computed in one process. "
             "Known finding S2 (route-less DIE 'template' equality) is matched by its exact triple pattern.",
        design="DESIGN.md 5-C09"),
    "C10": dict(
        technique="reachability reference model (BFS over ==-classes) + metamorphic closure laws + fuel-bounded termination monitor (logical steps, hook H2)",
        category="exploration",
        text="Closure bodies over generated finite graphs (successor tables with cycles, diamonds, self-loops; modular and guarded arithmetic; bodies "
             "containing ALT/OR/let/if/nested closures; one- and two-slot states; junk below) are run from 1-4 start stacks: the result multiset must equal "
             "the model's reachable set (each ==-class once), E+ must equal distinct(E E*), E? must equal (E,), E**, E+*, E*+ must collapse, results for "
             "several inputs must be the union of the single-input results, no stack may appear twice for one input, and every run must finish within a "
             "fuel budget (non-termination is decided in logical steps).  DWARF: child*, parent*, @AT_type* ... from every DIE of the sample files."
             " Bodies include mixed value types in one slot, empty alternatives (X?, (X,)), closure values lying below the working slots; two closures in a row and X*? / X+? are compared with the model."
             ' What follows a closure suffix is written with and without a blank (`E+ 1`, `E+1`): same result.',
        note="Unbounded termination is restated as bounded progress on finite graphs; infinite reachable sets (1+) are outside the statement and never generated.",
        design="DESIGN.md 5-C10"),
    "C11": dict(
        technique="word-level reference model + history-independence metamorphic relation over a value pool x depths x histories; stack-profile invariant hook H3",
        category="exploration",
        text="Every core word is applied to operand tuples from a 31-value pool (boundary integers per domain, booleans, type constants, strings with NUL/high bytes, "
             "nested/heterogeneous sequences, a block) at stack depths 0-6 reached through direct pushes, push/drop detours, let bindings, id-block scopes and the API "
             "input stack with arbitrary positions; results (values, domains, positions), diagnostics and raised errors are compared with the list/byte-string/integer "
             "model, and across histories.  H3 recomputes the cached type profile after every push/pop/drop/copy of every stack in the run."
             " Histories also include other live copies of the operands (alias), operand tuples of other types before and after (stream) and operands with non-zero positions."
             ' Regular expressions POSIX requires regcomp to refuse are judged (a diagnostic and no result for every stack), every cell is also run with the same operands three times in a row, and needles with a repeating beginning are placed inside failed partial matches.',
        note="?match is judged on a portable ERE subset; cross-type/cross-domain order cells are skipped.  Arity-2 pairs are sampled in the quick tier, exhaustive in thorough.",
        design="DESIGN.md 5-C11"),
    "C12": dict(
        technique="purity monitor over recorded API histories: every pull of every interleaved result set vs the sequence of a fresh process",
        category="exploration",
        text="In one long-lived process a generated text is compiled twice (after other texts with parser-side state), executed on 1-3 input stacks at once, "
             "and the pulls/destroys of the live result sets are interleaved (all interleavings when few, sampled otherwise; also the query destroyed while a "
             "result is live); the serialised outcome of every pull must equal the corresponding element of the sequence a freshly started process yields for "
             "the same text and input, and the input stack must be unchanged.  All ordered pairs of texts with parser-side state are compiled in one process; "
             "a Dwarf value is reused across interleaved executions of producers with internal caches."
             " DWARF queries are abandoned after k pulls and followed by full runs on the same handle; values kept across executions must stay unchanged; an execution that raises and refused compiles at the nesting limits precede other compiles and runs."
             ' Also: 6-16 result sets of one query parked deep inside recursive closure applications beside one more complete execution, all resumed afterwards; and the same text compiled before and after its vocabulary object grew (core words, then DWARF words added).',
        note="Assumes determinism of a fresh process as the reference.  Both sides are the real engine.",
        design="DESIGN.md 5-C12"),
    "C13": dict(
        technique="ASan+UBSan+LeakSanitizer (explicit recoverable leak checks) + scon shadow-map lifecycle hook under enumerated abandonment and injected failures; valgrind memcheck subset",
        category="fault_enumeration",
        text="Every generated program's result set is abandoned after every k = 0..n+1 pulls (query destroyed before or after the result) and a run-time failure "
             "is injected at every one of its first 40 state accesses (the step budget throws out of the engine), every token of generated queries is deleted in turn "
             "and the rejected queries leak-checked separately from accepted ones, DWARF producers are abandoned on the sample files; sanitizer reports and hook "
             "aborts are fatal, LeakSanitizer is polled after batches whose API objects were all destroyed.  All other properties' checks run on the same build."
             " Also: byte-level mutants, every vocabulary word and back-tick form on stacks of depth 0-5, every core word on operand tuples in leak-checked processes."
             ' Values that outlive the query that made them (closures with captured values, in sequences, in other closures; directly, from kept copies, re-wrapped by a second destroyed query) are applied, copied, compared and formatted by other queries; sequences with elements of every type are lined up against each other by every comparing word.',
        note="ASan misses intra-object overflows and reuse after quarantine; memcheck and libFuzzer are thorough-only.  Known finding F8 (rejected queries leak under yyparse/yylex) is matched by allocation site.",
        design="DESIGN.md 5-C13"),
    "C14": dict(
        technique="contract-event monitor at the C API boundary + sanitizers + watchdog, over hostile byte strings; CLI exit-status check",
        category="exploration",
        text="zwdrv wraps every API call and records (returned NULL/false, *err set, message empty, exception escaped, *out_stack set); all single bytes, all pairs "
             "of 50 tokens, boundary integer literals with every prefix, strings/splices cut at every position, NUL bytes and 30000+ byte-mutated grammar strings are "
             "parsed through zw_query_parse_len from an exact-size heap block (ASan sees any read past the length), through zw_query_parse, and with explicit "
             "lengths shorter than the buffer; accepted queries are executed under a step budget; run-time failures are placed at a chosen pull index; a sample "
             "goes through the CLI (-e, -f incl. NUL bytes, positional) where rejected or raising queries must end with a message and status 2."
             " Also: texts around the generated parser's stack limit and nesting probes per construct; the fallible calls of libzwerg-dw.h on missing, empty, truncated and DWARF-less files; every value the driver serialises is read through the public accessors and compared with the internals."
             ' Sample files with a damaged line table are opened and every query is run twice per handle (the second failure of a cached libdw lookup carries no error code).',
        note="A hang is a missing reply within 20 s twice in a row under a 20000-step budget.",
        design="DESIGN.md 5-C14"),
    "C15": dict(
        technique="metamorphic notation monitor: original vs rewritten program on the real engine, simplify on/off",
        category="exploration",
        text="Each generated program is re-rendered with random layout (blanks, tabs, newlines, the three comment styles between any two tokens, also inside %( %)), "
             "alternative escape spellings, split string literals, redundant parentheses, and rewritten by the documented equivalences (%s/%d/%x/%o/%b vs %( %), "
             "E? vs (E,), if vs (?(C) A, !(C) B), ?(E) vs ([E] != []), infix vs the let form), and compiled without tree::simplify; compile verdict and "
             "results must be identical.  Raw strings are compared with their spelled-out normal literals."
             " Also: 1600 generated split literals with raw and cooked segments and every gap, infix operands binding names, and the directives against their expansions on DWARF values."
             " Layout variants include 'no blank where two tokens cannot merge'; programs include equal stacks in a row and ?( ) / !( ) around assertion-only bodies.",
        note="Both sides are runs of the engine; sequence equality for layout/spelling/parentheses/simplify, multiset equality for the structural equivalences.",
        design="DESIGN.md 5-C15"),
    "C16": dict(
        technique="bitmask/set reference model vs coverage.cc on all (state, operation) transitions of a small universe + random sequences; canonical-form hook; Python set model vs aset words",
        category="exploration",
        text="covdrv links the repository's coverage.cc and compares every add/remove/is_covered/is_overlap/intersect/find_holes/add_all/remove_all/== "
             "outcome with a bitmask model for every subset of a 10-12 address universe at four bases (0, 2^32, 2^63, top of space) -- exhaustive for the "
             "one-step transition relation on canonical states -- plus long random sequences; zwdrv evaluates random aset expressions and all aset words "
             "against a Python set model (values, positions, domains, rendering, equality of differently built equal sets). H4 asserts canonical form inside the library."
             ' A wide-interval stage (operands anywhere in [0, 2^64-1], either order) is judged by an interval-list model.',
        note="Scoped, as the statement is, to ranges ending at or below 2^64-1. Exhaustive only within the small universe; larger sets are sampled.",
        design="DESIGN.md 5-C16"),
    "C17": dict(
        technique="ground truth by construction for generated location expressions/lists and abbreviation tables + metamorphic laws on samples and compiler output",
        category="exploration",
        text="Expressions generated per operand class (none, 1/2/4/8-byte and LEB signed/unsigned at boundaries, two operands, address, block, DIE reference, "
             "CU-relative type offset, nested expression; GNU and DWARF 5 spellings) are stored as exprloc, block1/2/4, .debug_loc (with base-address entries) and "
             ".debug_loclists (offset_pair, base_address, start_end, start_length) on location/frame_base/data_member_location; elements must be the ranges in "
             "stored order, every operation must report stored offset, opcode and operands, length = #elem, relem = elem reversed, ?OP_x iff present, address = range; "
             "every DIE's `abbrev` must match its code, tag, child flag and (name, form) list with DW_FORM_indirect preserved, `abbrev entry` must list every "
             "abbreviation of every (possibly shared, sparsely numbered) table exactly once."
             " All ten location-class attributes, empty expressions, abbreviations declared out of code order and `unit abbrev` are covered."
             " In DWARF 5 units about half of the lists are picked through the offset table (DW_FORM_loclistx + DW_AT_loclists_base), in an order other than the stored one.",
        note="DW_OP_skip/bra and negative implicit_pointer offsets are not generated (libdw validates / reads them unsigned).",
        design="DESIGN.md 5-C17"),
    "C18": dict(
        technique="independent struct-level ELF symbol table reader + elf.h-derived names vs the engine's `symbol` enumeration",
        category="exploration",
        text="Generated symbol tables (all 16x16 type/binding codes x visibilities, zero size, SHN_ABS/UNDEF, section symbols, empty and 4 KB names, 0 to 5000 symbols, "
             "ELF32/ELF64, LSB/MSB, ET_REL/EXEC/DYN) for every machine elf.h knows, the sample binaries (x86-64, ARM, MIPS, PPC64) and freshly linked objects are "
             "read by a Python struct reader; `symbol` must yield every entry once, in order, numbered from zero, with equal name/value/address/size/type/binding/"
             "visibility, type and binding rendered under the name elf.h gives that code for the file's machine; machine-specific codes of different machines must "
             "never compare equal, common codes must."
             " Also: sizes and values up to 2^64-1, one compiled query over files of different machines, `ar` archives of generated members, and renderings relative to elf.h range markers."
             " The command line's own symbol line is compared for files of 2-4 machines listed in one run, in both orders.",
        note="Values of symbols defined in sections of ET_REL files are relocated by libdwfl and not judged.",
        design="DESIGN.md 5-C18"),
    "C19": dict(
        technique="contract-model monitor of the real CLI: exit status / stdout / stderr predicted from library facts (zwdrv) for generated invocations",
        category="exploration",
        text="Random invocations of the built dwgrep (flag subsets of -q -s -c -H -h, query via -e / -f / positional, queries with 0/1/many results, compile errors, "
             "run-time errors after k results, soft errors; 0-3 files of kinds valid/second valid/nonexistent/directory/non-ELF; 0-2 -a/--a arguments yielding 0-3 values) "
             "are compared with a prediction computed from the library's own answers for the same query on every argument combination: exit status, stdout byte for "
             "byte (records in row-major order, headers, --- separators, -c counts), required/forbidden driver diagnostics on stderr."
             " Printed records are predicted for every value type except ELF symbols and abbreviation values (DIEs with attributes, attributes with one / several / no values, units, location expressions, address sets, sequences, the Dwarf value) from facts obtained from the library; under -c the count lines next to a raising combination are exact; queries of several lines and hostile -a literals are included."
             ' ELF symbol lines and sequence-valued --a arguments (shown in brief form in the header) are predicted too.',
        note="Records are predicted for integer/string results only; the -c line of a combination that raised is not judged.",
        design="DESIGN.md 5-C19"),
    "C20": dict(
        technique="round-trip monitors: header-derived constant values, rendering read back by the library, alias selection equality, CLI output re-parsed",
        category="exploration",
        text="All ~600 constant words of the vocabulary are evaluated: `value` must equal the number the installed dwarf.h/elf.h define (parsed independently), the full "
             "rendering must read back as an equal constant of the same domain (its own name unless the headers give the number several names); every ?TAG_x/?AT_x/@AT_x/"
             "?FORM_x/?OP_x alias must select exactly what the long spelling and the explicit `label == DW_..` comparison select on the sample files; lattice integers in "
             "every arithmetic domain and via %d %x %o %b must re-parse to an equal value of the same domain; all strings of length <= 2 (3 in thorough) over a hostile "
             "16-byte alphabet plus random longer ones are printed by the real CLI inside sequences (one and two levels deep) and each printed line is read back by the "
             "library and must denote the same bytes."
             " Also: renderings next to each other (mixed sequences through %s, the driver and the CLI) must equal renderings alone, and the aliases are applied to constants of all families carrying the same number.",
        note="Known finding F9: zero in hex/oct/bin renders as '0' (reads back as decimal) -- matched by (domain, zero) exactly.",
        design="DESIGN.md 5-C20"),
}

ALL = ["C%02d" % i for i in range(1, 21)]


def main():
    hooks = subprocess.run(["git", "-C", "/repo", "log", "--format=%H %s"], stdout=subprocess.PIPE, text=True).stdout.split("\n")
    hook_commits = [l.split()[0] for l in hooks if "verif hook" in l]
    checks = []
    for pid in ALL:
        if pid not in CHECKS:
            continue
        c = CHECKS[pid]
        checks.append({
            "property_id": pid,
            "quick_cmd": "python3 vf/check.py %s --tier quick" % pid,
            "thorough_cmd": "python3 vf/check.py %s --tier thorough" % pid,
            "evidence_file": "evidence/%s.json" % pid,
            "replay_cmd_template": "python3 vf/check.py %s --replay {path}" % pid,
            "engine": "vf",
            "level_claimed": {"category": c["category"], "text": c["text"], "design_ref": c["design"]},
            "level_note": c["note"],
            "technique": c["technique"],
        })
    na = [{"property_id": p, "reason": "check not built yet in this round (work in progress; runtime monitoring is applicable, see DESIGN.md)"}
          for p in ALL if p not in CHECKS]
    man = {
        "version": 1,
        "setup_cmd": "python3 vf/build.py asan",
        "hooks": {
            "guard": "DWGREP_VERIF",
            "enable": "vf/build.py configures /repo with cmake -G 'Unix Makefiles' into /verif/build/<variant> with -DDWGREP_VERIF plus sanitizer flags (CMAKE_CXX_FLAGS_VERIF)",
            "baseline_off_cmd": "cd /repo && (cmake --build _build -- -k 0 >/dev/null 2>&1 || true); ctest --test-dir /repo/_build -j8 --timeout 900",
            "source_commits": hook_commits,
            "add_only": True,
        },
        "engines": [
            {"name": "vf", "path": "vf/check.py", "serves_properties": sorted(CHECKS),
             "kind_free_text": "runtime monitoring: Python orchestrator + in-process C++ driver (drv/zwdrv.cc) and unit harnesses on an ASan+UBSan build with invariant hooks; oracles = reference models, metamorphic relations, independent decoders"},
        ],
        "checks": checks,
        "not_applicable": na,
        "notes": "See DESIGN.md. Known findings: known_findings.json. Seeded breaking changes: seeded/.",
    }
    with open(os.path.join(VERIF, "MANIFEST.json"), "w") as f:
        json.dump(man, f, indent=1)
    print("MANIFEST.json: %d checks, %d not_applicable" % (len(checks), len(na)))


if __name__ == "__main__":
    main()
