"""Typed AST of Zwerg programs and an unparser to token lists / text.

Node kinds (tuples, first element is the kind):
  ("cat", [nodes])                 concatenation (may be empty = empty expression)
  ("alt", [branches])              E1, E2, ...
  ("or", [branches])               E1 || E2 ...
  ("int", value, dom)              integer literal, dom in dec/hex/oct/bin
  ("str", [parts])                 format string; part = bytes | ("splice", node) | ("dir", "s"|"d"|"x"|"o"|"b")
  ("elist",)                       []
  ("word", name)                   builtin word (incl. ?x / !x and named constants)
  ("read", name)                   read of a bound name
  ("cap", ids, body)               [|ids| body]
  ("paren", ids, body)             (|ids| body)   -- ids may be ()
  ("sub", positive, ids, body)     ?(|ids| body) / !(|ids| body)
  ("infix", lhs, op, rhs)          lhs op rhs   (lhs/rhs nodes, op like "==")
  ("let", ids, body)               let ids := body ;
  ("if", c, t, e)                  if c then t else e   (c,t,e are nodes; unparser parenthesises)
  ("close", kind, body)            body* / body+ / body?   kind in "*+?"
  ("block", ids, body)             {|ids| body}
  ("npos", positive, n)            ?N / !N
  ("raw", text)                    verbatim text (used by mutation-style tests only; not modelled)
"""

PREC = {"alt": 0, "or": 1, "infix": 2, "cat": 3}  # everything else: atom (4)

RADIX_FMT = {"dec": ("", "%d"), "hex": ("0x", "%x"), "oct": ("0o", "%o"), "bin": ("0b", None)}


def int_text(v, dom):
    pfx, fmt = RADIX_FMT[dom]
    body = (fmt % abs(v)) if fmt else "{:b}".format(abs(v))
    return ("-" if v < 0 else "") + pfx + body


def str_escape(b, in_splice=False):
    out = []
    for i, c in enumerate(b):
        ch = bytes([c])
        if ch == b'"':
            out.append('\\"')
        elif ch == b"\\":
            out.append("\\\\")
        elif ch == b"%":
            out.append("%%")
        elif ch == b"\n":
            out.append("\\n")
        elif ch == b"\t":
            out.append("\\t")
        elif 0x20 <= c < 0x7f:
            out.append(chr(c))
        else:
            out.append("\\x%02x" % c)
    return "".join(out)


def prec(n):
    return PREC.get(n[0], 4)


def toks(n, need=0):
    """Token list of node N placed where precedence NEED is required."""
    t = _toks(n)
    if prec(n) < need:
        return ["("] + t + [")"]
    return t


def idblock(ids):
    return (["|"] + list(ids) + ["|"]) if ids else []


def _toks(n):
    k = n[0]
    if k == "cat":
        out = []
        for c in n[1]:
            out += toks(c, 4 if c[0] == "cat" else 3)
        return out
    if k == "alt":
        out = []
        for i, c in enumerate(n[1]):
            if i:
                out.append(",")
            out += toks(c, 1)
        return out
    if k == "or":
        out = []
        for i, c in enumerate(n[1]):
            if i:
                out.append("||")
            out += toks(c, 2)
        return out
    if k == "int":
        return [int_text(n[1], n[2])]
    if k == "str":
        return [str_text(n[1])]
    if k == "elist":
        return ["[", "]"]
    if k in ("word", "read"):
        return [n[1]]
    if k == "cap":
        inner = toks(n[2], 0)
        if not inner and not n[1]:
            inner = ["(", ")"]      # `[ ]` would be the empty-list literal
        return ["["] + idblock(n[1]) + inner + ["]"]
    if k == "bcap":      # back-tick capture: ``[ body ]  drops n[1] slots below the sequence
        if n[2] is None:
            return ["`" * n[1] + "[", "]"]
        return ["`" * n[1] + "["] + toks(n[2], 0) + ["]"]
    if k == "paren":
        return ["("] + idblock(n[1]) + toks(n[2], 0) + [")"]
    if k == "sub":
        return ["?(" if n[1] else "!("] + idblock(n[2]) + toks(n[3], 0) + [")"]
    if k == "infix":
        return toks(n[1], 3) + [n[2]] + toks(n[3], 3)
    if k == "let":
        return ["let"] + list(n[1]) + [":="] + toks(n[2], 0) + [";"]
    if k == "if":
        return ["if"] + stmt(n[1]) + ["then"] + stmt(n[2]) + ["else"] + stmt(n[3])
    if k == "close":
        return stmt(n[2]) + [n[1]]
    if k == "block":
        return ["{"] + idblock(n[1]) + toks(n[2], 0) + ["}"]
    if k == "npos":
        return [("?" if n[1] else "!") + str(n[2])]
    if k == "raw":
        return [n[1]]
    raise ValueError(k)


def is_single_statement(n):
    """Does N unparse to exactly one grammar Statement?"""
    k = n[0]
    if k in ("cat", "alt", "or", "infix"):
        return False
    if k == "let":
        return True
    return True


def stmt(n):
    """Tokens of N as ONE Statement (parenthesised unless it already is one)."""
    if n[0] in ("cat", "alt", "or", "infix", "if", "let"):
        # `if` is a statement but `if a then b else c*` would bind the star to c
        return ["("] + toks(n, 0) + [")"]
    return _toks(n)


STYLE = None      # set by text() while unparsing with a Style


class Style:
    """Layout / spelling choices that the documentation declares irrelevant."""

    def __init__(self, rng, ws=False, comments=False, strenc=False, split=False, tight=False):
        self.r, self.ws, self.comments, self.strenc, self.split = rng, ws, comments, strenc, split
        self.tight = tight      # no blank at all where two tokens cannot run into each other
        self.used = set()

    def sep(self):
        r = self.r
        if self.comments and r.random() < 0.3:
            k = r.choice(["c", "h", "s"])
            self.used.add("comment-" + k)
            word = r.choice(["x", "a comment", "1 2 add", "let", "if then", "%s", "", "==========", "////////", "..::..", "-*-", "<=>", "\\", "!", "?", "*/", '"', "[", "%("])
            tight = r.random() < 0.4          # no blank between the comment marker and its text
            if k == "c":
                if "*/" in word:
                    word = "* /"
                return r.choice([" ", "\n", "\t"]) + ("/*" + word + "*/" if tight else "/* " + word + " */") + r.choice([" ", "\n", " \n "])
            if k == "h":
                return (" #" if tight else " # ") + word + "\n"
            return (" //" if tight else " // ") + word + "\n"
        if self.ws and r.random() < 0.5:
            self.used.add("whitespace")
            return r.choice(["  ", "\t", "\n", " \n ", "\n\n", " \t ", "   "])
        return " "

    def enc_byte(self, c):
        r = self.r
        ch = chr(c)
        alts = []
        if ch == '"':
            alts = ['\\"']
        elif ch == "\\":
            alts = ["\\\\"]
        elif ch == "%":
            alts = ["%%"]
        elif ch == "\n":
            alts = ["\\n", "\n"]
        elif ch == "\t":
            alts = ["\\t", "\t"]
        elif 0x20 <= c < 0x7f:
            alts = [ch]
        elif c >= 0x80:
            alts = [ch]
        else:
            named = {7: "\\a", 8: "\\b", 27: "\\e", 11: "\\v", 12: "\\f", 13: "\\r"}
            alts = [named[c]] if c in named else []
        if not self.strenc:
            return alts[0] if alts else "\\x%02x" % c
        alts = alts + ["\\x%02x" % c, "\\x%02X" % c, "\\%03o" % c]
        self.used.add("escape")
        return r.choice(alts)

    def enc(self, b):
        out = []
        for i, c in enumerate(b):
            out.append(self.enc_byte(c))
            if self.split and i + 1 < len(b) and self.r.random() < 0.25:
                self.used.add("split")
                out.append('"\\' + self.r.choice(["", " ", "\n", " \t "]) + '"')
        return "".join(out)


def tight_ok(a, b):
    """May tokens A and B be written without anything between them?  (Only pairs that stay two tokens under longest-match lexing:
    a closing bracket or a closure suffix * / + before a digit, an opening bracket or a quote; anything before , ) ] } ; and after ( [ , {)"""
    if not a or not b:
        return False
    if b in (",", ")", "]", "}", ";") and (a[-1].isalnum() or a[-1] in ')]}"_'):
        return True
    if a in ("(", "[", ",", "{") and (b[0].isalnum() or b[0] in '([{"_'):
        return True
    if a in (")", "]", "}", "*", "+") and (b[0].isdigit() or b[0] in '([{"'):
        return True
    return False


def join(tokens):
    if STYLE is None:
        return " ".join(tokens)
    out = []
    for i, t in enumerate(tokens):
        if i:
            if getattr(STYLE, "tight", False) and tight_ok(tokens[i - 1], t) and STYLE.r.random() < 0.7:
                STYLE.used.add("tight")
            else:
                out.append(STYLE.sep())
        out.append(t)
    return "".join(out)


def str_text(parts):
    out = ['"']
    for p in parts:
        if isinstance(p, (bytes, bytearray)):
            out.append(str_escape(bytes(p)) if STYLE is None else STYLE.enc(bytes(p)))
        elif p[0] == "dir":
            out.append("%" + p[1])
        elif p[0] == "splice":
            inner = toks(p[1], 0)
            if STYLE is None:
                out.append("%( " + " ".join(inner) + " %)")
            else:
                out.append("%(" + STYLE.sep() + join(inner) + (STYLE.sep() if inner else "") + "%)")
    out.append('"')
    return "".join(out)


def text(n, style=None):
    global STYLE
    old = STYLE
    STYLE = style
    try:
        return join(toks(n, 0))
    finally:
        STYLE = old


def replace_at(n, path, f):
    """Replace the node at PATH (list of child indices per children()) by f(node)."""
    if not path:
        return f(n)
    ch = children(n)
    c, rebuild = ch[path[0]]
    return rebuild(replace_at(c, path[1:], f))


def paths(n, pred, prefix=()):
    """All paths to nodes satisfying PRED."""
    out = []
    if pred(n):
        out.append(list(prefix))
    for i, (c, _) in enumerate(children(n)):
        out += paths(c, pred, prefix + (i,))
    return out


def walk(n):
    """All nodes of N, pre-order, with the kind of the directly enclosing context."""
    yield n
    k = n[0]
    if k in ("cat", "alt", "or"):
        for c in n[1]:
            yield from walk(c)
    elif k == "str":
        for p in n[1]:
            if not isinstance(p, (bytes, bytearray)) and p[0] == "splice":
                yield from walk(p[1])
    elif k in ("cap", "paren", "let", "block"):
        yield from walk(n[2])
    elif k == "bcap":
        if n[2] is not None:
            yield from walk(n[2])
    elif k == "sub":
        yield from walk(n[3])
    elif k == "infix":
        yield from walk(n[1]); yield from walk(n[3])
    elif k == "if":
        yield from walk(n[1]); yield from walk(n[2]); yield from walk(n[3])
    elif k == "close":
        yield from walk(n[2])


def contexts(n, ctx="top", out=None):
    """(construct kind, enclosing context) pairs -- the nesting matrix of the evidence."""
    if out is None:
        out = []
    k = n[0]
    name = k if k != "close" else "close" + n[1]
    if k not in ("cat", "int", "word", "read", "elist", "npos"):
        out.append((name, ctx))
    if k == "cat":
        for c in n[1]:
            contexts(c, ctx, out)
    elif k == "alt":
        for c in n[1]:
            contexts(c, "alt-branch", out)
    elif k == "or":
        for c in n[1]:
            contexts(c, "or-branch", out)
    elif k == "str":
        for p in n[1]:
            if not isinstance(p, (bytes, bytearray)) and p[0] == "splice":
                contexts(p[1], "splice", out)
    elif k == "cap":
        contexts(n[2], "capture", out)
    elif k == "paren":
        contexts(n[2], "scope" if n[1] else ctx, out)
    elif k == "let":
        contexts(n[2], "let-body", out)
    elif k == "block":
        contexts(n[2], "block-body", out)
    elif k == "sub":
        contexts(n[3], "subx-assert", out)
    elif k == "infix":
        contexts(n[1], "infix-operand", out); contexts(n[3], "infix-operand", out)
    elif k == "if":
        contexts(n[1], "if-cond", out); contexts(n[2], "then-else", out); contexts(n[3], "then-else", out)
    elif k == "close":
        contexts(n[2], "closure-body", out)
    return out


def size(n):
    return sum(1 for _ in walk(n))


def has_kind(n, kinds):
    return any(x[0] in kinds for x in walk(n))


# ------------------------------------------------------------- minimisation
def children(n):
    """(child, rebuild(newchild)) pairs."""
    k = n[0]
    out = []
    if k in ("cat", "alt", "or"):
        for i, c in enumerate(n[1]):
            out.append((c, lambda x, i=i: (k, n[1][:i] + [x] + n[1][i + 1:])))
    elif k == "str":
        for i, p in enumerate(n[1]):
            if not isinstance(p, (bytes, bytearray)) and p[0] == "splice":
                out.append((p[1], lambda x, i=i: ("str", n[1][:i] + [("splice", x)] + n[1][i + 1:])))
    elif k in ("cap", "paren", "let", "block"):
        out.append((n[2], lambda x: (k, n[1], x)))
    elif k == "sub":
        out.append((n[3], lambda x: (k, n[1], n[2], x)))
    elif k == "infix":
        out.append((n[1], lambda x: (k, x, n[2], n[3])))
        out.append((n[3], lambda x: (k, n[1], n[2], x)))
    elif k == "if":
        out.append((n[1], lambda x: (k, x, n[2], n[3])))
        out.append((n[2], lambda x: (k, n[1], x, n[3])))
        out.append((n[3], lambda x: (k, n[1], n[2], x)))
    elif k == "close":
        out.append((n[2], lambda x: (k, n[1], x)))
    return out


def shrinks(n):
    """Candidate smaller replacements of N (one step)."""
    k = n[0]
    # replace by a child
    for c, _ in children(n):
        yield c
    if k in ("cat", "alt", "or"):
        for i in range(len(n[1])):
            rest = n[1][:i] + n[1][i + 1:]
            if k == "cat" or len(rest) >= 2:
                yield (k, rest)
            elif len(rest) == 1:
                yield rest[0]
    if k == "str":
        for i in range(len(n[1])):
            yield ("str", n[1][:i] + n[1][i + 1:])
    if k not in ("cat", "int") or (k == "cat" and n[1]):
        yield ("cat", [])
        yield ("int", 1, "dec")
    # recurse
    for c, rebuild in children(n):
        for s in shrinks(c):
            yield rebuild(s)


def minimize(n, pred, budget=400):
    """Greedy delta debugging: keep applying the first shrink that still satisfies PRED."""
    improved = True
    while improved and budget > 0:
        improved = False
        for cand in shrinks(n):
            budget -= 1
            if budget <= 0:
                break
            try:
                if size(cand) < size(n) or len(text(cand)) < len(text(n)):
                    if pred(cand):
                        n = cand
                        improved = True
                        break
            except Exception:
                continue
    return n
