/* Corpus source for the DWARF checks: structs, unions, enums, bitfields, typedef chains,
   function pointers, arrays, static locals, nested blocks, inlining, varargs.  */
#include <stddef.h>
typedef unsigned long ulong_t;
typedef ulong_t word_t;
typedef const volatile word_t cvword_t;
enum color { RED, GREEN = 5, BLUE = -3 };
enum big { BIG = 0xffffffffu };
struct point { int x, y; };
struct bits { unsigned a : 3; unsigned b : 5; signed c : 7; _Bool d : 1; };
union u { struct point p; long l; char c[16]; };
struct node { struct node *next; union u payload; enum color col; int (*cmp) (const void *, const void *); };
static const int table[4] = { 1, 2, 3, 4 };
const cvword_t cv = 42;
char c8 = 'x'; signed char sc = -1; unsigned char uc = 255; short sh = -2; unsigned short ush = 65535;
long long ll = -1234567890123LL; unsigned long long ull = 18446744073709551615ULL; float f = 1.5f; double dbl = 2.5; _Bool flag = 1;
static inline int sq (int v) { return v * v; }
int sum (int n, ...);
static int helper (struct node *n, int depth)
{
  static int calls;
  int acc = 0;
  calls++;
  for (int i = 0; i < depth; i++)
    {
      int local = sq (i) + table[i & 3];
      { volatile int inner = local * 2; acc += inner; }
      if (n && n->cmp) acc += n->cmp (&local, &acc);
    }
  return acc + calls;
}
int entry_point (struct node *n, enum color c, struct bits b)
{
  word_t w = cv;
  switch (c) { case RED: w += helper (n, 3); break; case GREEN: w += b.a + b.c; break; default: w -= sq ((int) w); }
  return (int) w + sizeof (union u);
}
