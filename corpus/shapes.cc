// Corpus source for the DWARF checks: namespaces, classes, templates, inheritance,
// references, enum classes, constexpr, lambdas, static members, nullptr_t, char16/32.
#include <cstddef>
namespace outer { namespace inner {
  enum class E : unsigned char { A = 1, B = 200 };
  enum class S : signed char { M = -100, N = 100 };
  template <class T, int N> struct Arr { T data[N]; static constexpr int size = N; T get (int i) const { return data[i]; } };
  template <E V> struct Tag { static constexpr E value = V; };
  template <char C> struct Ch { char c = C; };
  template <bool B> struct Bo { bool b = B; };
  template <long long L> struct Ll { long long l = L; };
  struct Base { virtual ~Base () {} virtual int f (int) = 0; int pub; protected: int prot; private: int priv; };
  struct Derived : public Base { int f (int x) override { return x + pub; } static int counter; mutable int m; };
  int Derived::counter = 7;
} }
using namespace outer::inner;
decltype (nullptr) np = nullptr;
char16_t c16 = u'x'; char32_t c32 = U'y'; wchar_t wc = L'z';
const bool kTrue = true; const E kE = E::B; const S kS = S::M; const char kC = 'c'; const unsigned long kUL = 0xfffffffffffffff0ul;
Arr<int, 3> arr3; Arr<E, 2> arre; Tag<E::B> tagb; Ch<'q'> chq; Bo<true> bot; Ll<-5> llm5;
int &ref (int &r) { return r; }
int use (Base &b, int n)
{
  auto lam = [&] (int k) { return b.f (k) + n; };
  Derived d; d.pub = arr3.get (1) + (int) sizeof (np) + (int) c16 + (int) c32 + (int) wc;
  int local = n;
  return lam (ref (local)) + d.f (2) + Derived::counter + (int) tagb.value + chq.c + bot.b + (int) llm5.l;
}
