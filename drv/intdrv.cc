// intdrv -- calls the repository's integer operators (int.cc, compiled into
// this binary) directly.  stdin: one pair per line "SA UA SB UB" where S is
// 's' or 'u' (internal representation) and U the 64-bit pattern in hex.
// stdout: one line per pair: results of + - * / % neg(a), each either "E" or
// "<s|u><hex>:<printed>", then six comparison bits (< > <= >= == !=).
#include <cassert>
#include <cstdint>
#include <cstdio>
#include <cstdlib>
#include <cstring>
#include <iostream>
#include <sstream>
#include <stdexcept>
#include <string>
#include "int.hh"

static std::string
fmt (mpz_class r)
{
  std::stringstream ss;
  ss << r;
  char buf[40];
  snprintf (buf, sizeof buf, "%c%llx:", r.is_signed () ? 's' : 'u',
	    (unsigned long long) r.m_u);
  return buf + ss.str ();
}

template <class F>
static std::string
tryop (F f)
{
  try
    {
      return fmt (f ());
    }
  catch (std::domain_error const &e)
    {
      return "E";
    }
}

int
main ()
{
  char sa, sb;
  unsigned long long ua, ub;
  char line[256];
  std::string out;
  while (fgets (line, sizeof line, stdin))
    {
      if (sscanf (line, " %c %llx %c %llx", &sa, &ua, &sb, &ub) != 4)
	continue;
      mpz_class a {(uint64_t) ua, sa == 's' ? signedness::sign : signedness::unsign};
      mpz_class b {(uint64_t) ub, sb == 's' ? signedness::sign : signedness::unsign};
      out.clear ();
      out += tryop ([&] { return a + b; }); out += ' ';
      out += tryop ([&] { return a - b; }); out += ' ';
      out += tryop ([&] { return a * b; }); out += ' ';
      out += tryop ([&] { return a / b; }); out += ' ';
      out += tryop ([&] { return a % b; }); out += ' ';
      out += tryop ([&] { return -a; }); out += ' ';
      out += (a < b) ? '1' : '0';
      out += (a > b) ? '1' : '0';
      out += (a <= b) ? '1' : '0';
      out += (a >= b) ? '1' : '0';
      out += (a == b) ? '1' : '0';
      out += (a != b) ? '1' : '0';
      out += '\n';
      fputs (out.c_str (), stdout);
    }
  return 0;
}
