// libFuzzer target: parse the input as a Zwerg query through the C API, execute it on an
// empty stack under a step budget, pull a fuzzer-chosen number of results, abandon.
// The first byte chooses how many results to pull and whether the query is destroyed first.
#include <cstdint>
#include <cstdio>
#include <cstdlib>
#include <cstring>
#include <iostream>
#include <sstream>
#include "libzwerg.h"
#include "libzwerg-dw.h"
#ifdef DWGREP_VERIF
# include "verif-hooks.hh"
#endif

static zw_vocabulary *voc;
static std::stringstream sink;

extern "C" int
LLVMFuzzerInitialize (int *, char ***)
{
  zw_error *err;
  voc = zw_vocabulary_init (&err);
  zw_vocabulary_add (voc, zw_vocabulary_core (&err), &err);
  zw_vocabulary_add (voc, zw_vocabulary_dwarf (&err), &err);
  std::cerr.rdbuf (sink.rdbuf ());
  return 0;
}

static void
contract (bool failed, zw_error *err, char const *call)
{
  zw_error *const sentinel = reinterpret_cast <zw_error *> (0x5e5e5e5e);
  bool errset = err != sentinel;
  if (failed != errset || (errset && (err == nullptr || zw_error_message (err)[0] == 0)))
    {
      fprintf (stderr, "DWGREP_VERIF contract: %s failed=%d errset=%d\n", call, failed, errset);
      abort ();
    }
  if (errset)
    zw_error_destroy (err);
}

extern "C" int
LLVMFuzzerTestOneInput (const uint8_t *data, size_t size)
{
  if (size < 1 || size > 400)
    return 0;
  unsigned ctl = data[0];
  zw_error *const sentinel = reinterpret_cast <zw_error *> (0x5e5e5e5e);
  zw_error *err = sentinel;
  sink.str ("");
  // exact-size copy: reads past the length are heap overflows
  char *buf = (char *) malloc (size - 1 ? size - 1 : 1);
  memcpy (buf, data + 1, size - 1);
  zw_query *q = zw_query_parse_len (voc, buf, size - 1, &err);
  free (buf);
  contract (q == nullptr, err, "zw_query_parse_len");
  if (q == nullptr)
    return 0;

  err = sentinel;
  zw_stack *in = zw_stack_init (&err);
  contract (in == nullptr, err, "zw_stack_init");
#ifdef DWGREP_VERIF
  dwgrep_verif::fuel () = 3000;
#endif
  err = sentinel;
  zw_result *r = zw_query_execute (q, in, &err);
  contract (r == nullptr, err, "zw_query_execute");
  if (r != nullptr)
    {
      unsigned pulls = ctl & 15;
      for (unsigned i = 0; i < pulls; ++i)
	{
	  zw_stack *out = reinterpret_cast <zw_stack *> (0x6f6f6f6f);
	  err = sentinel;
	  bool ok = zw_result_next (r, &out, &err);
	  contract (! ok, err, "zw_result_next");
	  if (! ok)
	    break;
	  if (out == reinterpret_cast <zw_stack *> (0x6f6f6f6f))
	    abort ();
	  if (out == nullptr)
	    break;
	  if (zw_stack_depth (out) > 64)
	    {
	      zw_stack_destroy (out);
	      break;
	    }
	  zw_stack_destroy (out);
	}
      if (ctl & 16)
	{
	  zw_query_destroy (q);
	  q = nullptr;
	}
      zw_result_destroy (r);
    }
#ifdef DWGREP_VERIF
  dwgrep_verif::fuel () = 0;
#endif
  if (q != nullptr)
    zw_query_destroy (q);
  zw_stack_destroy (in);
  return 0;
}
