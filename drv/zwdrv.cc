// zwdrv -- in-process driver of libzwerg for the runtime monitors.
//
// Reads one request per line on stdin ("op key=value key=value ..."; byte
// strings hex encoded), answers with one JSON object per line on a private
// descriptor (a dup of the original stdout).  The process' own stdout is
// redirected into a memfd so that anything the library writes there by
// accident is measured ("stray") instead of corrupting the protocol.
//
// Every API call goes through wrap() which records the contract event
// (returned NULL/false?  *err set?  message empty?  exception escaped?).

#include <cassert>
#include <cinttypes>
#include <cstdio>
#include <cstdlib>
#include <cstring>
#include <iostream>
#include <map>
#include <memory>
#include <sstream>
#include <string>
#include <vector>
#include <unistd.h>
#include <fcntl.h>
#include <sys/mman.h>
#include <sys/stat.h>
#include <sys/resource.h>
#include <dwarf.h>
#include <elfutils/libdw.h>

#include "libzwergP.hh"
#include "libzwerg.h"
#include "libzwerg-dw.h"
#include "builtin.hh"
#include "init.hh"
#include "parser.hh"
#include "stack.hh"
#include "tree.hh"
#include "value-cst.hh"
#include "value-str.hh"
#include "value-seq.hh"
#include "value-closure.hh"
#include "value-dw.hh"
#include "value-aset.hh"
#include "value-symbol.hh"
#include "docstring.hh"

#ifdef DWGREP_VERIF
# include "verif-hooks.hh"
#endif

#if defined(__SANITIZE_ADDRESS__)
extern "C" int __lsan_do_recoverable_leak_check (void);
#endif

namespace
{
  FILE *g_out;
  int g_stdout_memfd = -1;

  // ------------------------------------------------------------ JSON output
  std::string
  jstr (std::string const &s)
  {
    std::string r = "\"";
    for (unsigned char c: s)
      {
	if (c == '"' || c == '\\')
	  { r += '\\'; r += c; }
	else if (c < 0x20 || c >= 0x7f)
	  {
	    char buf[8];
	    snprintf (buf, sizeof buf, "\\u%04x", c);
	    r += buf;
	  }
	else
	  r += c;
      }
    return r + "\"";
  }

  std::string
  hexenc (char const *p, size_t n)
  {
    static char const *d = "0123456789abcdef";
    std::string r;
    r.reserve (n * 2);
    for (size_t i = 0; i < n; ++i)
      {
	r += d[(unsigned char) p[i] >> 4];
	r += d[(unsigned char) p[i] & 15];
      }
    return r;
  }

  std::string
  hexdec (std::string const &s)
  {
    std::string r;
    auto v = [] (char c) -> int {
      if (c >= '0' && c <= '9') return c - '0';
      if (c >= 'a' && c <= 'f') return c - 'a' + 10;
      if (c >= 'A' && c <= 'F') return c - 'A' + 10;
      return 0;
    };
    for (size_t i = 0; i + 1 < s.size (); i += 2)
      r += (char) (v (s[i]) * 16 + v (s[i + 1]));
    return r;
  }

  // --------------------------------------------------------- contract events
  struct events
  {
    std::vector <std::string> m_ev;	// JSON objects
    unsigned m_violations = 0;
    void clear () { m_ev.clear (); m_violations = 0; }
  } g_events;

  zw_error *const SENTINEL = reinterpret_cast <zw_error *> (0x5e5e5e5e);

  // Calls F (err), which returns a pointer or bool.  Records what happened.
  template <class F>
  auto
  wrap (char const *call, F f, std::string *msg = nullptr)
    -> decltype (f ((zw_error **) nullptr))
  {
    typedef decltype (f ((zw_error **) nullptr)) R;
    zw_error *err = SENTINEL;
    R ret {};
    bool threw = false;
    std::string what;
    try
      {
	ret = f (&err);
      }
    catch (std::exception const &e)
      {
	threw = true;
	what = e.what ();
      }
    catch (...)
      {
	threw = true;
	what = "...";
      }

    bool failed = ! ret;
    bool errset = err != SENTINEL;
    std::string m;
    bool nullerr = false;
    if (errset)
      {
	if (err == nullptr)
	  nullerr = true;
	else
	  {
	    m = zw_error_message (err);
	    zw_error_destroy (err);
	  }
      }
    bool bad = threw || (failed != errset) || nullerr
      || (errset && ! nullerr && m.empty ());
    if (bad)
      ++g_events.m_violations;
    if (bad || failed)
      {
	std::stringstream ss;
	ss << "{\"call\":" << jstr (call)
	   << ",\"failed\":" << (failed ? "true" : "false")
	   << ",\"errset\":" << (errset ? "true" : "false")
	   << ",\"threw\":" << (threw ? "true" : "false")
	   << ",\"bad\":" << (bad ? "true" : "false")
	   << ",\"msg\":" << jstr (threw ? what : m) << "}";
	g_events.m_ev.push_back (ss.str ());
      }
    if (msg != nullptr)
      *msg = threw ? what : m;
    return ret;
  }

  // ---------------------------------------------------- value serialisation
  std::string ser_value (value const &v);

  std::string
  show_str (value const &v)
  {
    std::stringstream ss;
    v.show (ss);
    return ss.str ();
  }

  std::string
  ser_die_ident (value_die const &d)
  {
    std::stringstream ss;
    Dwarf_Die die = d.get_die ();
    // which file the DIE lives in (main vs. supplementary dwz file): the size of
    // the ELF image is a process-independent discriminator
    size_t fsz = 0;
    if (Dwarf *dw = dwarf_cu_getdwarf (die.cu))
      if (Elf *elf = dwarf_getelf (dw))
	elf_rawfile (elf, &fsz);
    ss << "\"o\":" << dwarf_dieoffset (&die)
       << ",\"fsz\":" << fsz
       << ",\"tag\":" << dwarf_tag (&die)
       << ",\"raw\":" << (d.is_raw () ? "true" : "false")
       << ",\"imp\":[";
    if (d.is_cooked ())
      {
	bool first = true;
	for (auto imp = d.get_import (); imp != nullptr;
	     imp = imp->is_cooked () ? imp->get_import () : nullptr)
	  {
	    Dwarf_Die idie = imp->get_die ();
	    ss << (first ? "" : ",") << dwarf_dieoffset (&idie);
	    first = false;
	  }
      }
    ss << "]";
    return ss.str ();
  }

  std::string
  ser_const (constant const &c)
  {
    std::stringstream ss;
    auto v = c.value ();
    ss << "\"s\":" << (v.is_signed () ? "true" : "false") << ",\"v\":\"";
    if (v.is_signed ())
      ss << v.sval ();
    else
      ss << v.uval ();
    ss << "\",\"d\":" << jstr (c.dom () != nullptr ? c.dom ()->name () : "(null)")
       << ",\"ar\":" << (c.dom () != nullptr && c.dom ()->safe_arith ()
			 ? "true" : "false");
    {
      std::stringstream s2;
      s2 << constant {c.value (), c.dom (), brevity::full};
      ss << ",\"f\":" << jstr (s2.str ());
    }
    {
      std::stringstream s2;
      s2 << constant {c.value (), c.dom (), brevity::brief};
      ss << ",\"b\":" << jstr (s2.str ());
    }
    return ss.str ();
  }

  unsigned long g_api_reads = 0;

  // "deep" serialisation (run ... deep=1): the facts the CLI needs to print a
  // value -- a DIE's raw attributes, an attribute's label and values, the
  // operations of a location expression -- obtained from the library by the
  // same sub-queries the documentation describes, for vf/props/c19.py to render
  // independently.  g_depth: 0 for a value on the yielded stack, >0 when nested.
  bool g_deep = false;
  int g_depth = 0;
  std::string deep_list (value const &v, char const *query, bool whole_stack);

  void
  api_bad (char const *what, std::string const &detail)
  {
    ++g_events.m_violations;
    g_events.m_ev.push_back (std::string ("{\"call\":") + jstr (what)
			     + ",\"bad\":true,\"accessor\":true,\"msg\":"
			     + jstr (detail) + "}");
  }

  // Every value that is serialised is also read through the PUBLIC accessors
  // of libzwerg.h / libzwerg-dw.h; what they return has to be what the value
  // holds (the serialisation below reads the internals).  Exactly one of the
  // zw_value_is_* predicates may hold.
  void
  api_check (value const &v)
  {
    zw_value const *z = &v;
    int kinds = zw_value_is_const (z) + zw_value_is_str (z) + zw_value_is_seq (z)
      + zw_value_is_dwarf (z) + zw_value_is_cu (z) + zw_value_is_die (z)
      + zw_value_is_attr (z) + zw_value_is_llelem (z) + zw_value_is_llop (z)
      + zw_value_is_aset (z) + zw_value_is_elfsym (z);
    bool known = v.is <value_cst> () || v.is <value_str> () || v.is <value_seq> ()
      || v.is <value_dwarf> () || v.is <value_cu> () || v.is <value_die> ()
      || v.is <value_attr> () || v.is <value_loclist_elem> ()
      || v.is <value_loclist_op> () || v.is <value_aset> ()
      || v.is <value_symbol> ();
    ++g_api_reads;
    if (kinds != (known ? 1 : 0))
      api_bad ("zw_value_is_*", "number of type predicates that hold: "
	       + std::to_string (kinds));
    if (zw_value_pos (z) != v.get_pos ())
      api_bad ("zw_value_pos", "differs from the value's position");

    if (auto cu = value::as <value_cu> (&v))
      {
	if (! zw_value_is_cu (z) || zw_value_cu_offset (z) != cu->get_offset ()
	    || zw_value_cu_cu (z) != &const_cast <value_cu *> (cu)->get_cu ())
	  api_bad ("zw_value_cu_*", "offset or Dwarf_CU differs");
      }
    else if (auto d = value::as <value_die> (&v))
      {
	Dwarf_Die a = zw_value_die_die (z), b = d->get_die ();
	if (! zw_value_is_die (z) || a.addr != b.addr || a.cu != b.cu)
	  api_bad ("zw_value_die_die", "another DIE");
	zw_value const *dw = wrap ("zw_value_die_dwarf", [&] (zw_error **e) {
	    return zw_value_die_dwarf (z, e); });
	if (dw != nullptr && ! zw_value_is_dwarf (dw))
	  api_bad ("zw_value_die_dwarf", "not a Dwarf value");
      }
    else if (auto a = value::as <value_attr> (&v))
      {
	Dwarf_Attribute x = zw_value_attr_attr (z), y = a->get_attr ();
	if (! zw_value_is_attr (z) || x.code != y.code || x.form != y.form
	    || x.valp != y.valp || x.cu != y.cu)
	  api_bad ("zw_value_attr_attr", "another attribute");
	zw_value const *dw = wrap ("zw_value_attr_dwarf", [&] (zw_error **e) {
	    return zw_value_attr_dwarf (z, e); });
	if (dw != nullptr && ! zw_value_is_dwarf (dw))
	  api_bad ("zw_value_attr_dwarf", "not a Dwarf value");
      }
    else if (auto le = value::as <value_loclist_elem> (&v))
      {
	size_t n = ~(size_t) 0;
	Dwarf_Op *ops = zw_value_llelem_expr (z, &n);
	Dwarf_Attribute x = zw_value_llelem_attribute (z),
	  y = const_cast <value_loclist_elem *> (le)->get_attr ();
	if (! zw_value_is_llelem (z)
	    || zw_value_llelem_low (z) != le->get_low ()
	    || zw_value_llelem_high (z) != le->get_high ()
	    || n != le->get_exprlen () || ops != le->get_expr ()
	    || x.code != y.code || x.valp != y.valp)
	  api_bad ("zw_value_llelem_*", "low/high/expression/attribute differ");
      }
    else if (auto lo = value::as <value_loclist_op> (&v))
      {
	Dwarf_Attribute x = zw_value_llop_attribute (z),
	  y = const_cast <value_loclist_op *> (lo)->get_attr ();
	if (! zw_value_is_llop (z) || zw_value_llop_op (z) != lo->get_dwop ()
	    || x.code != y.code || x.valp != y.valp)
	  api_bad ("zw_value_llop_*", "operation or attribute differ");
      }
    else if (auto as = value::as <value_aset> (&v))
      {
	auto const &cov = as->get_coverage ();
	bool ok = zw_value_is_aset (z) && zw_value_aset_length (z) == cov.size ();
	for (size_t i = 0; ok && i < cov.size (); ++i)
	  {
	    zw_aset_pair p = zw_value_aset_at (z, i);
	    ok = p.start == cov.at (i).start && p.length == cov.at (i).length;
	  }
	if (! ok)
	  api_bad ("zw_value_aset_*", "ranges differ");
      }
    else if (auto sy = value::as <value_symbol> (&v))
      {
	GElf_Sym a = zw_value_elfsym_symbol (z), b = sy->get_symbol ();
	if (! zw_value_is_elfsym (z) || zw_value_elfsym_symidx (z) != sy->get_symidx ()
	    || strcmp (zw_value_elfsym_name (z), sy->get_name ()) != 0
	    || a.st_value != b.st_value || a.st_size != b.st_size
	    || a.st_info != b.st_info || a.st_other != b.st_other
	    || a.st_shndx != b.st_shndx || a.st_name != b.st_name)
	  api_bad ("zw_value_elfsym_*", "index/name/symbol differ");
	zw_value const *dw = wrap ("zw_value_elfsym_dwarf", [&] (zw_error **e) {
	    return zw_value_elfsym_dwarf (z, e); });
	if (dw != nullptr)
	  {
	    if (! zw_value_is_dwarf (dw))
	      api_bad ("zw_value_elfsym_dwarf", "not a Dwarf value");
	    else
	      wrap ("zw_value_dwarf_machine", [&] (zw_error **e) {
		  return zw_value_dwarf_machine (dw, e); });
	  }
      }
    else if (auto dw = value::as <value_dwarf> (&v))
      {
	char const *n = zw_value_dwarf_name (z);
	if (! zw_value_is_dwarf (z) || n == nullptr || dw->get_fn () != n
	    || zw_value_dwarf_dwfl (z) == nullptr)
	  api_bad ("zw_value_dwarf_*", "name or Dwfl differ");
      }
    else if (auto c = value::as <value_cst> (&v))
      {
	constant const &k = c->get_constant ();
	bool sg = zw_value_const_is_signed (z);
	if (sg != k.value ().is_signed ()
	    || (sg ? zw_value_const_i64 (z) != k.value ().sval ()
		   : zw_value_const_u64 (z) != k.value ().uval ()))
	  api_bad ("zw_value_const_*", "signedness or number differ");
	// the two fallible formatting calls: what they return is the library's
	// own rendering (full / brief), or NULL with an error -- never an exception
	for (int brief = 0; brief < 2; ++brief)
	  {
	    std::string m;
	    zw_value *fv = wrap (brief ? "zw_value_const_format_brief"
				       : "zw_value_const_format",
				 [&] (zw_error **e) {
		return brief ? zw_value_const_format_brief (z, e)
			     : zw_value_const_format (z, e); }, &m);
	    if (fv != nullptr)
	      {
		std::stringstream s2;
		bool ok = true;
		try
		  {
		    s2 << constant {k.value (), k.dom (),
				    brief ? brevity::brief : brevity::full};
		  }
		catch (...)
		  {
		    ok = false;
		  }
		size_t len = 0;
		char const *str = zw_value_is_str (fv)
		  ? zw_value_str_str (fv, &len) : nullptr;
		if (str == nullptr || (ok && std::string (str, len) != s2.str ()))
		  api_bad ("zw_value_const_format*", "differs from the rendering");
		zw_value_destroy (fv);
	      }
	  }
      }
    else if (auto q = value::as <value_seq> (&v))
      {
	if (zw_value_seq_length (z) != q->get_seq ()->size ())
	  api_bad ("zw_value_seq_length", "differs");
	for (size_t i = 0; i < q->get_seq ()->size (); ++i)
	  if (zw_value_seq_at (z, i) != (*q->get_seq ())[i].get ())
	    api_bad ("zw_value_seq_at", "another element");
      }
  }

  std::string
  ser_value (value const &v)
  {
    api_check (v);
    std::stringstream ss;
    ss << "{\"p\":" << v.get_pos () << ",";
    if (auto c = value::as <value_cst> (&v))
      ss << "\"t\":\"c\"," << ser_const (c->get_constant ());
    else if (auto s = value::as <value_str> (&v))
      ss << "\"t\":\"s\",\"v\":\""
	 << hexenc (s->get_string ().data (), s->get_string ().size ())
	 << "\"";
    else if (auto q = value::as <value_seq> (&v))
      {
	ss << "\"t\":\"q\",\"v\":[";
	bool first = true;
	++g_depth;
	for (auto const &e: *q->get_seq ())
	  {
	    ss << (first ? "" : ",") << ser_value (*e);
	    first = false;
	  }
	--g_depth;
	ss << "]";
      }
    else if (v.is <value_closure> ())
      ss << "\"t\":\"f\"";
    else if (auto dw = value::as <value_dwarf> (&v))
      ss << "\"t\":\"dw\",\"n\":" << jstr (dw->get_fn ())
	 << ",\"raw\":" << (dw->is_raw () ? "true" : "false");
    else if (auto cu = value::as <value_cu> (&v))
      ss << "\"t\":\"cu\",\"o\":" << cu->get_offset ()
	 << ",\"raw\":" << (cu->is_raw () ? "true" : "false");
    else if (auto d = value::as <value_die> (&v))
      {
	ss << "\"t\":\"die\"," << ser_die_ident (*d);
	if (g_deep)
	  {
	    ss << ",\"lbl\":" << deep_list (v, "label", false);
	    if (g_depth == 0)
	      ss << ",\"attrs\":" << deep_list (v, "raw attribute", false);
	  }
      }
    else if (auto a = value::as <value_attr> (&v))
      {
	Dwarf_Attribute at = a->get_attr ();
	ss << "\"t\":\"at\",\"name\":" << dwarf_whatattr (&at)
	   << ",\"form\":" << dwarf_whatform (&at)
	   << ",\"raw\":" << (a->is_raw () ? "true" : "false")
	   << ",\"die\":{" << ser_die_ident (a->get_value_die ()) << "}";
	if (g_deep)
	  ss << ",\"lbl\":" << deep_list (v, "label", false)
	     << ",\"vals\":" << deep_list (v, "value", false);
      }
    else if (auto le = value::as <value_loclist_elem> (&v))
      {
	ss << "\"t\":\"lle\",\"lo\":\"" << le->get_low ()
	   << "\",\"hi\":\"" << le->get_high ()
	   << "\",\"n\":" << le->get_exprlen () << ",\"ops\":[";
	for (size_t i = 0; i < le->get_exprlen (); ++i)
	  {
	    Dwarf_Op const &op = le->get_expr ()[i];
	    ss << (i ? "," : "") << "[" << (unsigned) op.atom << ",\""
	       << op.number << "\",\"" << op.number2 << "\","
	       << op.offset << "]";
	  }
	ss << "]";
	if (g_deep)
	  ss << ",\"elems\":" << deep_list (v, "elem", false);
      }
    else if (auto lo = value::as <value_loclist_op> (&v))
      {
	Dwarf_Op const *op = lo->get_dwop ();
	ss << "\"t\":\"llo\",\"atom\":" << (unsigned) op->atom
	   << ",\"n1\":\"" << op->number << "\",\"n2\":\"" << op->number2
	   << "\",\"o\":" << op->offset;
	if (g_deep)
	  ss << ",\"props\":" << deep_list (v, "(offset, label, value)", false);
      }
    else if (auto as = value::as <value_aset> (&v))
      {
	ss << "\"t\":\"as\",\"r\":[";
	auto const &cov = as->get_coverage ();
	for (size_t i = 0; i < cov.size (); ++i)
	  ss << (i ? "," : "") << "[\"" << cov.at (i).start << "\",\""
	     << cov.at (i).length << "\"]";
	ss << "]";
      }
    else if (auto sy = value::as <value_symbol> (&v))
      {
	GElf_Sym s = sy->get_symbol ();
	ss << "\"t\":\"sym\",\"idx\":" << sy->get_symidx ()
	   << ",\"name\":\"" << hexenc (sy->get_name (), strlen (sy->get_name ()))
	   << "\",\"value\":\"" << s.st_value << "\",\"size\":\"" << s.st_size
	   << "\",\"info\":" << (unsigned) s.st_info
	   << ",\"other\":" << (unsigned) s.st_other
	   << ",\"shndx\":" << (unsigned) s.st_shndx;
	if (g_deep)
	  ss << ",\"props\":" << deep_list (v, "(label, binding, visibility)", false);
      }
    else if (auto au = value::as <value_abbrev_unit> (&v))
      {
	// Identify by the unit's header offset.
	Dwarf_Die cudie;
	Dwarf_CU &cu = const_cast <value_abbrev_unit *> (au)->get_cu ();
	Dwarf_Off off = 0;
	if (dwarf_cu_die (&cu, &cudie, nullptr, nullptr, nullptr, nullptr,
			  nullptr, nullptr) != nullptr)
	  off = dwarf_dieoffset (&cudie);
	ss << "\"t\":\"abu\",\"cudie\":" << off;
      }
    else if (auto ab = value::as <value_abbrev> (&v))
      {
	Dwarf_Abbrev &abbrev = const_cast <value_abbrev *> (ab)->get_abbrev ();
	ss << "\"t\":\"ab\",\"code\":" << dwarf_getabbrevcode (&abbrev)
	   << ",\"tag\":" << dwarf_getabbrevtag (&abbrev)
	   << ",\"ch\":" << dwarf_abbrevhaschildren (&abbrev);
      }
    else if (auto aa = value::as <value_abbrev_attr> (&v))
      ss << "\"t\":\"aba\",\"name\":" << aa->name << ",\"form\":" << aa->form
	 << ",\"o\":" << aa->offset;
    else
      ss << "\"t\":\"?\"";
    ss << ",\"sh\":" << jstr (show_str (v)) << "}";
    return ss.str ();
  }

  // Serialise an API stack, bottom first.
  std::string
  ser_stack (zw_stack const *stk)
  {
    std::string r = "[";
    size_t n = zw_stack_depth (stk);
    for (size_t i = 0; i < n; ++i)
      {
	if (i)
	  r += ",";
	r += ser_value (*zw_stack_at (stk, n - 1 - i));
      }
    return r + "]";
  }

  // --------------------------------------------------------------- handles
  zw_vocabulary *g_voc;
  std::map <std::string, zw_query *> g_queries;
  std::map <std::string, zw_result *> g_results;
  std::map <std::string, zw_value *> g_values;
  std::map <std::string, zw_stack *> g_stacks; // input stacks kept for C12

  // JSON array of the serialised TOS of every stack QUERY yields on <V>.
  std::string
  deep_list (value const &v, char const *query, bool)
  {
    std::string out = "[";
    bool saved = g_deep;
    ++g_depth;
    zw_error *err = nullptr;
    zw_query *q = zw_query_parse (g_voc, query, &err);
    zw_stack *in = q != nullptr ? zw_stack_init (&err) : nullptr;
    if (in != nullptr && zw_stack_push (in, &v, &err))
      if (zw_result *r = zw_query_execute (q, in, &err))
	{
	  bool first = true;
	  while (true)
	    {
	      zw_stack *o = nullptr;
	      zw_error *e2 = nullptr;
	      if (! zw_result_next (r, &o, &e2))
		{
		  out += std::string (first ? "" : ",") + "{\"t\":\"err\",\"msg\":"
		    + jstr (e2 != nullptr ? zw_error_message (e2) : "?") + "}";
		  if (e2 != nullptr)
		    zw_error_destroy (e2);
		  break;
		}
	      if (o == nullptr)
		break;
	      if (zw_stack_depth (o) > 0)
		{
		  out += (first ? "" : ",") + ser_value (*zw_stack_at (o, 0));
		  first = false;
		}
	      zw_stack_destroy (o);
	    }
	  zw_result_destroy (r);
	}
    if (err != nullptr)
      zw_error_destroy (err);
    if (in != nullptr)
      zw_stack_destroy (in);
    if (q != nullptr)
      zw_query_destroy (q);
    --g_depth;
    g_deep = saved;
    return out + "]";
  }

  typedef std::map <std::string, std::string> args_t;

  std::string
  arg (args_t const &a, char const *k, char const *dflt = "")
  {
    auto it = a.find (k);
    return it == a.end () ? dflt : it->second;
  }

  zw_cdom const *
  dom_by_name (std::string const &n)
  {
    if (n == "dec") return zw_cdom_dec ();
    if (n == "hex") return zw_cdom_hex ();
    if (n == "oct") return zw_cdom_oct ();
    if (n == "bin") return zw_cdom_bin ();
    if (n == "bool") return zw_cdom_bool ();
    if (n == "tag") return zw_cdom_dw_tag ();
    if (n == "attr") return zw_cdom_dw_attr ();
    if (n == "form") return zw_cdom_dw_form ();
    if (n == "lang") return zw_cdom_dw_lang ();
    if (n == "enc") return zw_cdom_dw_encoding ();
    if (n == "access") return zw_cdom_dw_access ();
    if (n == "op") return zw_cdom_dw_locexpr_opcode ();
    if (n == "stv") return zw_cdom_elfsym_stv ();
    if (n == "line") return &line_number_dom;
    if (n == "col") return &column_number_dom;
    if (n.compare (0, 4, "stt.") == 0 || n.compare (0, 4, "stb.") == 0)
      {
	zw_error *err;
	zw_machine *m = zw_machine_init (atoi (n.c_str () + 4), &err);
	zw_cdom const *d = n[2] == 't' ? zw_cdom_elfsym_stt (m)
				       : zw_cdom_elfsym_stb (m);
	zw_machine_destroy (m);
	return d;
      }
    return nullptr;
  }

  zw_query *parse_q (std::string const &text, bool nosimp, std::string *msg,
		     long declared_len = -1);

  // Build an input stack from a comma-separated spec:
  //   i:<dec>:<dom>:<pos>  u:<dec>:<dom>:<pos>  s:<hex>:<pos>
  //   q:<hexquery>   (run on the stack built so far, first result replaces it)
  //   v:<id>         (clone of a kept value, e.g. an opened Dwarf)
  //   d:<hexpath> / r:<hexpath>  (open cooked / raw Dwarf)
  zw_stack *
  build_stack (std::string const &spec, std::string *msg)
  {
    zw_stack *stk = wrap ("zw_stack_init", [&] (zw_error **e)
			  { return zw_stack_init (e); }, msg);
    if (stk == nullptr)
      return nullptr;

    size_t i = 0;
    while (i < spec.size ())
      {
	size_t j = spec.find (',', i);
	if (j == std::string::npos)
	  j = spec.size ();
	std::string item = spec.substr (i, j - i);
	i = j + 1;
	if (item.empty ())
	  continue;

	std::vector <std::string> f;
	{
	  size_t a = 0;
	  while (true)
	    {
	      size_t b = item.find (':', a);
	      if (b == std::string::npos)
		{
		  f.push_back (item.substr (a));
		  break;
		}
	      f.push_back (item.substr (a, b - a));
	      a = b + 1;
	    }
	}
	f.resize (4);

	zw_value *v = nullptr;
	if (f[0] == "i" || f[0] == "u")
	  {
	    zw_cdom const *dom = dom_by_name (f[2].empty () ? "dec" : f[2]);
	    if (dom == nullptr)
	      {
		*msg = "harness: unknown domain " + f[2];
		zw_stack_destroy (stk);
		return nullptr;
	      }
	    size_t pos = strtoull (f[3].c_str (), nullptr, 10);
	    if (f[0] == "i")
	      v = wrap ("zw_value_init_const_i64", [&] (zw_error **e) {
		  return zw_value_init_const_i64
		    (strtoll (f[1].c_str (), nullptr, 10), dom, pos, e);
		}, msg);
	    else
	      v = wrap ("zw_value_init_const_u64", [&] (zw_error **e) {
		  return zw_value_init_const_u64
		    (strtoull (f[1].c_str (), nullptr, 10), dom, pos, e);
		}, msg);
	  }
	else if (f[0] == "s")
	  {
	    std::string bytes = hexdec (f[1]);
	    size_t pos = strtoull (f[2].c_str (), nullptr, 10);
	    // exact-size heap copy: a read past the length trips ASan
	    char *buf = (char *) malloc (bytes.size () ? bytes.size () : 1);
	    memcpy (buf, bytes.data (), bytes.size ());
	    v = wrap ("zw_value_init_str_len", [&] (zw_error **e) {
		return zw_value_init_str_len (buf, bytes.size (), pos, e);
	      }, msg);
	    free (buf);
	  }
	else if (f[0] == "d" || f[0] == "r")
	  {
	    std::string path = hexdec (f[1]);
	    size_t pos = strtoull (f[2].c_str (), nullptr, 10);
	    if (f[0] == "d")
	      v = wrap ("zw_value_init_dwarf", [&] (zw_error **e) {
		  return zw_value_init_dwarf (path.c_str (), pos, e); }, msg);
	    else
	      v = wrap ("zw_value_init_dwarf_raw", [&] (zw_error **e) {
		  return zw_value_init_dwarf_raw (path.c_str (), pos, e); },
		msg);
	  }
	else if (f[0] == "v")
	  {
	    auto it = g_values.find (f[1]);
	    if (it == g_values.end ())
	      {
		*msg = "harness: no value " + f[1];
		zw_stack_destroy (stk);
		return nullptr;
	      }
	    // zw_stack_push clones
	    if (! wrap ("zw_stack_push", [&] (zw_error **e) {
		  return zw_stack_push (stk, it->second, e); }, msg))
	      {
		zw_stack_destroy (stk);
		return nullptr;
	      }
	    continue;
	  }
	else if (f[0] == "q")
	  {
	    std::string m2;
	    zw_query *q = parse_q (hexdec (f[1]), false, &m2);
	    if (q == nullptr)
	      {
		*msg = "harness: input query rejected: " + m2;
		zw_stack_destroy (stk);
		return nullptr;
	      }
	    zw_result *r = wrap ("zw_query_execute", [&] (zw_error **e) {
		return zw_query_execute (q, stk, e); }, &m2);
	    zw_stack *out = nullptr;
	    bool ok = r != nullptr
	      && wrap ("zw_result_next", [&] (zw_error **e) {
		  return zw_result_next (r, &out, e); }, &m2);
	    if (r != nullptr)
	      zw_result_destroy (r);
	    zw_query_destroy (q);
	    if (! ok || out == nullptr)
	      {
		*msg = "harness: input query yielded nothing: " + m2;
		zw_stack_destroy (stk);
		return nullptr;
	      }
	    zw_stack_destroy (stk);
	    stk = out;
	    continue;
	  }
	else
	  {
	    *msg = "harness: bad spec item " + item;
	    zw_stack_destroy (stk);
	    return nullptr;
	  }

	if (v == nullptr)
	  {
	    zw_stack_destroy (stk);
	    return nullptr;
	  }
	if (! wrap ("zw_stack_push_take", [&] (zw_error **e) {
	      return zw_stack_push_take (stk, v, e); }, msg))
	  {
	    zw_stack_destroy (stk);
	    return nullptr;
	  }
      }
    return stk;
  }

  zw_query *
  parse_q (std::string const &text, bool nosimp, std::string *msg,
	   long declared_len)
  {
    // Exact-size heap block without terminator: reading beyond the declared
    // length is an ASan report.
    size_t len = declared_len >= 0 && (size_t) declared_len <= text.size ()
      ? (size_t) declared_len : text.size ();
    char *buf = (char *) malloc (len ? len : 1);
    memcpy (buf, text.data (), len);
    zw_query *q;
    if (! nosimp)
      q = wrap ("zw_query_parse_len", [&] (zw_error **e) {
	  return zw_query_parse_len (g_voc, buf, len, e); }, msg);
    else
      // The same as zw_query_parse_len, minus tree::simplify.
      q = wrap ("parse_nosimplify", [&] (zw_error **e) {
	  return capture_errors ([&] () {
	      tree t = parse_query (buf, buf + len);
	      layout l;
	      auto origin = std::make_shared <op_origin> (l);
	      auto op = t.build_exec (l, origin, *g_voc->m_voc);
	      return new zw_query {l, *origin, op};
	    }, nullptr, e); }, msg);
    free (buf);
    return q;
  }

  // ------------------------------------------------------------ bookkeeping
  std::stringstream g_cerr;

  size_t
  stray_stdout ()
  {
    fflush (stdout);
    std::cout.flush ();
    off_t n = lseek (g_stdout_memfd, 0, SEEK_CUR);
    if (n > 0)
      {
	if (ftruncate (g_stdout_memfd, 0) != 0)
	  {}
	lseek (g_stdout_memfd, 0, SEEK_SET);
      }
    return n > 0 ? n : 0;
  }

  void
  set_fuel (uint64_t f)
  {
#ifdef DWGREP_VERIF
    dwgrep_verif::fuel () = f;
#endif
  }

  uint64_t
  fuel_used ()
  {
#ifdef DWGREP_VERIF
    return dwgrep_verif::get_stats ().fuel_used;
#else
    return 0;
#endif
  }

  std::string
  tail_json ()
  {
    std::stringstream ss;
    ss << ",\"stderr\":" << jstr (g_cerr.str ());
    g_cerr.str ("");
    ss << ",\"stray\":" << stray_stdout ();
    ss << ",\"ev\":[";
    for (size_t i = 0; i < g_events.m_ev.size (); ++i)
      ss << (i ? "," : "") << g_events.m_ev[i];
    ss << "],\"evbad\":" << g_events.m_violations;
    g_events.clear ();
    return ss.str ();
  }

  void
  reply (std::string const &body)
  {
    std::string s = "{" + body + tail_json () + "}\n";
    fwrite (s.data (), 1, s.size (), g_out);
    fflush (g_out);
  }

  // Pull up to MAX results; serialise.  Returns JSON members.
  std::string
  pull (zw_result *r, size_t max, bool *ended, bool *errored, std::string *msg)
  {
    std::string res = "[";
    size_t n = 0;
    *ended = *errored = false;
    while (n < max)
      {
	zw_stack *out = reinterpret_cast <zw_stack *> (0x6f6f6f6f);
	bool ok = wrap ("zw_result_next", [&] (zw_error **e) {
	    return zw_result_next (r, &out, e); }, msg);
	if (! ok)
	  {
	    *errored = true;
	    break;
	  }
	if (out == reinterpret_cast <zw_stack *> (0x6f6f6f6f))
	  {
	    ++g_events.m_violations;
	    g_events.m_ev.push_back
	      ("{\"call\":\"zw_result_next\",\"bad\":true,"
	       "\"msg\":\"returned true without setting *out_stack\"}");
	    *errored = true;
	    break;
	  }
	if (out == nullptr)
	  {
	    *ended = true;
	    break;
	  }
	if (n)
	  res += ",";
	res += ser_stack (out);
	zw_stack_destroy (out);
	++n;
      }
    return res + "]";
  }

  // ------------------------------------------------------------- operations
  void
  op_run (args_t const &a)
  {
    std::string text = hexdec (arg (a, "q"));
    bool nosimp = arg (a, "nosimp") == "1";
    size_t max = strtoull (arg (a, "max", "100000").c_str (), nullptr, 10);
    uint64_t fuel = strtoull (arg (a, "fuel", "0").c_str (), nullptr, 10);
    long len = arg (a, "len").empty () ? -1 : atol (arg (a, "len").c_str ());

    std::string msg;
    zw_stack *in = build_stack (arg (a, "in"), &msg);
    if (in == nullptr)
      return reply ("\"st\":\"harness\",\"msg\":" + jstr (msg));

    std::string in_before = ser_stack (in);

    // voc=grow: the text is first compiled with a vocabulary that holds the
    // core words only; then the DWARF words are added to that SAME vocabulary
    // object and the text is compiled again -- this second query is the one
    // that runs (what it yields must not depend on the first compilation).
    struct voc_swap
    {
      zw_vocabulary *saved = nullptr, *grown = nullptr;
      ~voc_swap ()
      {
	if (grown != nullptr)
	  {
	    g_voc = saved;
	    zw_vocabulary_destroy (grown);
	  }
      }
    } vs;
    if (arg (a, "voc") == "grow")
      {
	zw_error *e = nullptr;
	vs.saved = g_voc;
	vs.grown = zw_vocabulary_init (&e);
	if (vs.grown == nullptr
	    || ! zw_vocabulary_add (vs.grown, zw_vocabulary_core (&e), &e))
	  {
	    zw_stack_destroy (in);
	    return reply ("\"st\":\"harness\",\"msg\":\"vocabulary\"");
	  }
	g_voc = vs.grown;
	std::string m0;
	zw_query *q0 = parse_q (text, nosimp, &m0, len);
	if (q0 != nullptr)
	  zw_query_destroy (q0);
	if (! zw_vocabulary_add (vs.grown, zw_vocabulary_dwarf (&e), &e))
	  {
	    zw_stack_destroy (in);
	    return reply ("\"st\":\"harness\",\"msg\":\"vocabulary\"");
	  }
      }

    uint64_t f0 = fuel_used ();
    set_fuel (fuel);
    zw_query *q = parse_q (text, nosimp, &msg, len);
    if (q == nullptr)
      {
	set_fuel (0);
	zw_stack_destroy (in);
	return reply ("\"st\":\"reject\",\"msg\":" + jstr (msg));
      }

    // vocdrop=1 (with voc=grow): the vocabulary the query was compiled with is
    // destroyed before the query runs; the query owns what it needs.
    if (vs.grown != nullptr && arg (a, "vocdrop") == "1")
      {
	g_voc = vs.saved;
	zw_vocabulary_destroy (vs.grown);
	vs.grown = nullptr;
      }

    zw_result *r = wrap ("zw_query_execute", [&] (zw_error **e) {
	return zw_query_execute (q, in, e); }, &msg);
    if (r == nullptr)
      {
	set_fuel (0);
	zw_query_destroy (q);
	zw_stack_destroy (in);
	return reply ("\"st\":\"execfail\",\"msg\":" + jstr (msg));
      }

    bool ended, errored;
    g_deep = arg (a, "deep") == "1";
    std::string res = pull (r, max, &ended, &errored, &msg);
    g_deep = false;
    set_fuel (0);
    uint64_t used = fuel_used () - f0;

    // optional: destroy the query before the result
    if (arg (a, "qfirst") == "1")
      {
	zw_query_destroy (q);
	zw_result_destroy (r);
      }
    else
      {
	zw_result_destroy (r);
	zw_query_destroy (q);
      }
    bool in_same = ser_stack (in) == in_before;
    zw_stack_destroy (in);

    std::stringstream ss;
    ss << "\"st\":" << (errored ? "\"error\"" : ended ? "\"done\"" : "\"cut\"")
       << ",\"msg\":" << jstr (errored ? msg : "")
       << ",\"res\":" << res << ",\"fuel\":" << used
       << ",\"in_same\":" << (in_same ? "true" : "false");
    reply (ss.str ());
  }

  void
  op_parse (args_t const &a)
  {
    std::string id = arg (a, "id");
    long len = arg (a, "len").empty () ? -1 : atol (arg (a, "len").c_str ());
    std::string msg;
    zw_query *q;
    if (arg (a, "cstr") == "1")
      {
	// NUL-terminated entry point
	std::string text = hexdec (arg (a, "q"));
	char *buf = (char *) malloc (text.size () + 1);
	memcpy (buf, text.c_str (), text.size () + 1);
	q = wrap ("zw_query_parse", [&] (zw_error **e) {
	    return zw_query_parse (g_voc, buf, e); }, &msg);
	free (buf);
      }
    else
      q = parse_q (hexdec (arg (a, "q")), arg (a, "nosimp") == "1", &msg, len);
    if (q == nullptr)
      return reply ("\"st\":\"reject\",\"msg\":" + jstr (msg));
    if (id.empty ())
      zw_query_destroy (q);
    else
      {
	if (g_queries.count (id))
	  zw_query_destroy (g_queries[id]);
	g_queries[id] = q;
      }
    reply ("\"st\":\"ok\"");
  }

  void
  op_qdestroy (args_t const &a)
  {
    auto it = g_queries.find (arg (a, "id"));
    if (it == g_queries.end ())
      return reply ("\"st\":\"harness\",\"msg\":\"no such query\"");
    zw_query_destroy (it->second);
    g_queries.erase (it);
    reply ("\"st\":\"ok\"");
  }

  void
  op_exec (args_t const &a)
  {
    auto it = g_queries.find (arg (a, "qid"));
    if (it == g_queries.end ())
      return reply ("\"st\":\"harness\",\"msg\":\"no such query\"");
    std::string msg;
    zw_stack *in;
    std::string sid = arg (a, "sid");
    if (! sid.empty () && g_stacks.count (sid))
      in = g_stacks[sid];
    else
      {
	in = build_stack (arg (a, "in"), &msg);
	if (in == nullptr)
	  return reply ("\"st\":\"harness\",\"msg\":" + jstr (msg));
	if (! sid.empty ())
	  g_stacks[sid] = in;
      }
    uint64_t fuel = strtoull (arg (a, "fuel", "0").c_str (), nullptr, 10);
    set_fuel (fuel);
    zw_result *r = wrap ("zw_query_execute", [&] (zw_error **e) {
	return zw_query_execute (it->second, in, e); }, &msg);
    set_fuel (0);
    std::string ser = ser_stack (in);
    if (sid.empty ())
      zw_stack_destroy (in);
    if (r == nullptr)
      return reply ("\"st\":\"execfail\",\"msg\":" + jstr (msg));
    std::string rid = arg (a, "rid");
    if (g_results.count (rid))
      zw_result_destroy (g_results[rid]);
    g_results[rid] = r;
    reply ("\"st\":\"ok\",\"in\":" + ser);
  }

  void
  op_next (args_t const &a)
  {
    auto it = g_results.find (arg (a, "rid"));
    if (it == g_results.end ())
      return reply ("\"st\":\"harness\",\"msg\":\"no such result\"");
    size_t max = strtoull (arg (a, "max", "1").c_str (), nullptr, 10);
    uint64_t fuel = strtoull (arg (a, "fuel", "0").c_str (), nullptr, 10);
    set_fuel (fuel);
    bool ended, errored;
    std::string msg;
    std::string res = pull (it->second, max, &ended, &errored, &msg);
    set_fuel (0);
    std::stringstream ss;
    ss << "\"st\":" << (errored ? "\"error\"" : ended ? "\"done\"" : "\"cut\"")
       << ",\"msg\":" << jstr (errored ? msg : "") << ",\"res\":" << res;
    reply (ss.str ());
  }

  void
  op_rdestroy (args_t const &a)
  {
    auto it = g_results.find (arg (a, "rid"));
    if (it == g_results.end ())
      return reply ("\"st\":\"harness\",\"msg\":\"no such result\"");
    zw_result_destroy (it->second);
    g_results.erase (it);
    reply ("\"st\":\"ok\"");
  }

  void
  op_sdestroy (args_t const &a)
  {
    auto it = g_stacks.find (arg (a, "sid"));
    if (it == g_stacks.end ())
      return reply ("\"st\":\"harness\",\"msg\":\"no such stack\"");
    std::string ser = ser_stack (it->second);
    zw_stack_destroy (it->second);
    g_stacks.erase (it);
    reply ("\"st\":\"ok\",\"in\":" + ser);
  }

  void
  op_open (args_t const &a)
  {
    std::string id = arg (a, "id");
    std::string path = hexdec (arg (a, "path"));
    bool raw = arg (a, "raw") == "1";
    std::string msg;
    zw_value *v = raw
      ? wrap ("zw_value_init_dwarf_raw", [&] (zw_error **e) {
	  return zw_value_init_dwarf_raw (path.c_str (), 0, e); }, &msg)
      : wrap ("zw_value_init_dwarf", [&] (zw_error **e) {
	  return zw_value_init_dwarf (path.c_str (), 0, e); }, &msg);
    if (v == nullptr)
      return reply ("\"st\":\"fail\",\"msg\":" + jstr (msg));
    if (g_values.count (id))
      zw_value_destroy (g_values[id]);
    g_values[id] = v;
    reply ("\"st\":\"ok\"");
  }

  // keep id=X in=<spec>: evaluate the input spec once and keep a copy of its top
  // value under X, to be pushed (v:X) onto the input stacks of many executions.
  void
  op_keep (args_t const &a)
  {
    std::string msg;
    zw_stack *stk = build_stack (arg (a, "in"), &msg);
    if (stk == nullptr || zw_stack_depth (stk) < 1)
      {
	if (stk != nullptr)
	  zw_stack_destroy (stk);
	return reply ("\"st\":\"fail\",\"msg\":" + jstr (msg));
      }
    zw_value *v = wrap ("zw_value_clone", [&] (zw_error **e) {
	return zw_value_clone (zw_stack_at (stk, 0), zw_value_pos (zw_stack_at (stk, 0)), e); }, &msg);
    std::string ser = v != nullptr ? ser_value (*v) : "null";
    zw_stack_destroy (stk);
    if (v == nullptr)
      return reply ("\"st\":\"fail\",\"msg\":" + jstr (msg));
    std::string id = arg (a, "id");
    if (g_values.count (id))
      zw_value_destroy (g_values[id]);
    g_values[id] = v;
    reply ("\"st\":\"ok\",\"value\":" + ser);
  }

  void
  op_close (args_t const &a)
  {
    auto it = g_values.find (arg (a, "id"));
    if (it == g_values.end ())
      return reply ("\"st\":\"harness\",\"msg\":\"no such value\"");
    zw_value_destroy (it->second);
    g_values.erase (it);
    reply ("\"st\":\"ok\"");
  }

  // Relation matrices: for each word (a query text), execute on every ordered
  // pair [a b] of pool values; '1' yields (unchanged), '0' nothing, 'x' the
  // yielded stack differs from the input, 'e' raised.
  void
  op_cmpmat (args_t const &a)
  {
    std::string msg;
    // pool: each item is a spec producing a one-slot stack, ';' separated
    std::vector <zw_stack *> pool;
    {
      std::string p = arg (a, "pool");
      size_t i = 0;
      while (i <= p.size ())
	{
	  size_t j = p.find (';', i);
	  if (j == std::string::npos)
	    j = p.size ();
	  std::string item = p.substr (i, j - i);
	  i = j + 1;
	  if (item.empty ())
	    continue;
	  zw_stack *s = build_stack (item, &msg);
	  if (s == nullptr || zw_stack_depth (s) < 1)
	    {
	      for (auto x: pool)
		zw_stack_destroy (x);
	      return reply ("\"st\":\"harness\",\"msg\":"
			    + jstr ("pool item " + item + ": " + msg));
	    }
	  pool.push_back (s);
	}
    }
    std::vector <std::string> words;
    {
      std::string p = arg (a, "words");
      size_t i = 0;
      while (i <= p.size ())
	{
	  size_t j = p.find (';', i);
	  if (j == std::string::npos)
	    j = p.size ();
	  if (j > i)
	    words.push_back (hexdec (p.substr (i, j - i)));
	  i = j + 1;
	}
    }

    size_t row0 = strtoull (arg (a, "row0", "0").c_str (), nullptr, 10);
    size_t row1 = strtoull (arg (a, "row1", "1000000").c_str (), nullptr, 10);
    std::stringstream ss;
    ss << "\"st\":\"ok\",\"n\":" << pool.size () << ",\"pool\":[";
    for (size_t i = 0; i < pool.size (); ++i)
      ss << (i ? "," : "") << ser_value (*zw_stack_at (pool[i], 0));
    ss << "],\"mat\":{";
    bool firstw = true;
    for (auto const &w: words)
      {
	zw_query *q = parse_q (w, false, &msg);
	if (q == nullptr)
	  {
	    for (auto x: pool)
	      zw_stack_destroy (x);
	    return reply ("\"st\":\"harness\",\"msg\":"
			  + jstr ("word " + w + ": " + msg));
	  }
	std::string m;
	m.reserve (pool.size () * pool.size ());
	for (size_t i = row0; i < row1 && i < pool.size (); ++i)
	  for (size_t j = 0; j < pool.size (); ++j)
	    {
	      zw_error *err;
	      zw_stack *in = zw_stack_init (&err);
	      zw_stack_push (in, zw_stack_at (pool[i], 0), &err);
	      zw_stack_push (in, zw_stack_at (pool[j], 0), &err);
	      std::string before = ser_stack (in);
	      zw_result *r = wrap ("zw_query_execute", [&] (zw_error **e) {
		  return zw_query_execute (q, in, e); }, &msg);
	      char c = 'e';
	      if (r != nullptr)
		{
		  zw_stack *out = nullptr;
		  if (wrap ("zw_result_next", [&] (zw_error **e) {
			return zw_result_next (r, &out, e); }, &msg))
		    {
		      if (out == nullptr)
			c = '0';
		      else
			{
			  c = ser_stack (out) == before ? '1' : 'x';
			  zw_stack_destroy (out);
			  // an assertion yields at most once
			  zw_stack *out2 = nullptr;
			  if (! wrap ("zw_result_next", [&] (zw_error **e) {
				return zw_result_next (r, &out2, e); }, &msg))
			    c = 'e';
			  else if (out2 != nullptr)
			    {
			      c = 'x';
			      zw_stack_destroy (out2);
			    }
			}
		    }
		  zw_result_destroy (r);
		}
	      zw_stack_destroy (in);
	      m += c;
	    }
	zw_query_destroy (q);
	ss << (firstw ? "" : ",") << jstr (w) << ":\"" << m << "\"";
	firstw = false;
      }
    ss << "}";
    for (auto x: pool)
      zw_stack_destroy (x);
    reply (ss.str ());
  }

  void
  op_voc (args_t const &)
  {
    std::stringstream ss;
    ss << "\"st\":\"ok\",\"words\":[";
    bool first = true;
    for (auto const &b: g_voc->m_voc->get_builtins ())
      {
	ss << (first ? "" : ",") << jstr (b.first);
	first = false;
      }
    ss << "]";
    reply (ss.str ());
  }

  void
  op_stats (args_t const &)
  {
    std::stringstream ss;
    ss << "\"st\":\"ok\"";
#ifdef DWGREP_VERIF
    auto const &s = dwgrep_verif::get_stats ();
    ss << ",\"hooks\":true,\"scon_new\":" << s.scon_new
       << ",\"scon_del\":" << s.scon_del
       << ",\"scon_con\":" << s.scon_con << ",\"scon_des\":" << s.scon_des
       << ",\"scon_get\":" << s.scon_get
       << ",\"coverage_checks\":" << s.coverage_checks
       << ",\"fuel_used\":" << s.fuel_used
       << ",\"fuel_exhausted\":" << s.fuel_exhausted
       << ",\"stack_checks_after_drop\":" << s.stack_checks_after_drop
       << ",\"stack_checks\":[";
    for (int i = 0; i < 8; ++i)
      ss << (i ? "," : "") << s.stack_checks[i];
    ss << "],\"state_types\":{";
    bool first = true;
    for (auto const &e: s.state_types)
      {
	ss << (first ? "" : ",") << jstr (e.first) << ":" << e.second;
	first = false;
      }
    ss << "}";
#else
    ss << ",\"hooks\":false";
#endif
    ss << ",\"api_accessor_reads\":" << g_api_reads;
    ss << ",\"live\":{\"q\":" << g_queries.size () << ",\"r\":"
       << g_results.size () << ",\"v\":" << g_values.size ()
       << ",\"s\":" << g_stacks.size () << "}";
    reply (ss.str ());
  }

  void
  op_leakcheck (args_t const &)
  {
    int leaked = -1;
#if defined(__SANITIZE_ADDRESS__)
    // Report goes to stderr / log_path; returns non-zero when leaks exist.
    leaked = __lsan_do_recoverable_leak_check ();
#endif
    std::stringstream ss;
    ss << "\"st\":\"ok\",\"leaked\":" << leaked;
    reply (ss.str ());
  }

  args_t
  parse_args (std::string const &line, std::string *op)
  {
    args_t a;
    std::stringstream ss (line);
    ss >> *op;
    std::string kv;
    while (ss >> kv)
      {
	size_t eq = kv.find ('=');
	if (eq == std::string::npos)
	  a[kv] = "1";
	else
	  a[kv.substr (0, eq)] = kv.substr (eq + 1);
      }
    return a;
  }
}

int
main (int argc, char **argv)
{
  // private protocol channel
  int outfd = dup (1);
  g_out = fdopen (outfd, "w");
  g_stdout_memfd = memfd_create ("zwdrv-stdout", 0);
  if (g_stdout_memfd < 0 || dup2 (g_stdout_memfd, 1) < 0)
    {
      perror ("memfd");
      return 2;
    }

  // Soft-error diagnostics are part of the observable behaviour.
  std::cerr.rdbuf (g_cerr.rdbuf ());

  zw_error *err;
  g_voc = zw_vocabulary_init (&err);
  if (g_voc == nullptr
      || ! zw_vocabulary_add (g_voc, zw_vocabulary_core (&err), &err)
      || ! zw_vocabulary_add (g_voc, zw_vocabulary_dwarf (&err), &err))
    {
      fprintf (stderr, "zwdrv: cannot initialise vocabulary\n");
      return 2;
    }

  std::string line;
  while (std::getline (std::cin, line))
    {
      std::string op;
      args_t a = parse_args (line, &op);
      if (op == "run") op_run (a);
      else if (op == "parse") op_parse (a);
      else if (op == "qdestroy") op_qdestroy (a);
      else if (op == "exec") op_exec (a);
      else if (op == "next") op_next (a);
      else if (op == "rdestroy") op_rdestroy (a);
      else if (op == "sdestroy") op_sdestroy (a);
      else if (op == "open") op_open (a);
      else if (op == "close") op_close (a);
      else if (op == "keep") op_keep (a);
      else if (op == "cmpmat") op_cmpmat (a);
      else if (op == "voc") op_voc (a);
      else if (op == "stats") op_stats (a);
      else if (op == "leakcheck") op_leakcheck (a);
      else if (op == "quit") break;
      else
	reply ("\"st\":\"harness\",\"msg\":\"unknown op\"");
    }

  // Orderly teardown so that LSan at exit only sees genuine leaks.
  for (auto &r: g_results) zw_result_destroy (r.second);
  for (auto &q: g_queries) zw_query_destroy (q.second);
  for (auto &s: g_stacks) zw_stack_destroy (s.second);
  for (auto &v: g_values) zw_value_destroy (v.second);
  zw_vocabulary_destroy (g_voc);
  fflush (g_out);
  return 0;
}
