// covdrv -- monitors the repository's coverage.cc (compiled into this binary)
// against a bitmask model.
//
//   covdrv exhaustive <universe> <base>
//       for every subset S of {base .. base+universe-1} (built with the real
//       add()) and every operation (add/remove of every interval inside the
//       universe; is_covered / is_overlap / intersect of every interval;
//       find_holes over the universe), compare with the model; for every
//       pair of subsets (S, T): add_all, remove_all, ==.
//   covdrv random <seed> <sequences> <len>
//       random op sequences over a 64-address window at random bases.
//
// Output: JSON object with counters and up to 50 mismatches.  Exit 0 always
// (the orchestrator decides), unless a sanitizer or hook aborts.
#include <cassert>
#include <cinttypes>
#include <cstdint>
#include <cstdio>
#include <cstdlib>
#include <cstring>
#include <random>
#include <string>
#include <vector>
#include "coverage.hh"

typedef uint64_t mask_t;

static unsigned long long n_checks, n_bad, n_trans, n_pairs;
static std::vector <std::string> bad;

static void
report (char const *what, uint64_t base, mask_t s, char const *op,
	unsigned a, unsigned b, mask_t got, mask_t want)
{
  ++n_bad;
  if (bad.size () < 50)
    {
      char buf[512];
      snprintf (buf, sizeof buf,
		"{\"what\":\"%s\",\"base\":\"%" PRIu64 "\",\"state\":\"%" PRIx64
		"\",\"op\":\"%s\",\"a\":%u,\"b\":%u,\"got\":\"%" PRIx64
		"\",\"want\":\"%" PRIx64 "\"}", what, base, s, op, a, b, got,
		want);
      bad.push_back (buf);
    }
}

// Returns false if COV is not canonical or leaves the universe.
static bool
to_mask (coverage const &cov, uint64_t base, unsigned U, mask_t *out)
{
  mask_t m = 0;
  uint64_t prev_end = 0;
  for (size_t i = 0; i < cov.size (); ++i)
    {
      cov_range r = cov.at (i);
      if (r.length == 0)
	return false;
      if (r.start < base || r.start - base >= U || r.length > U
	  || r.start - base + r.length > U)
	return false;
      if (i > 0 && r.start <= prev_end)	// unsorted, overlapping or adjacent
	return false;
      prev_end = r.start + r.length;
      for (uint64_t k = 0; k < r.length; ++k)
	m |= (mask_t) 1 << (r.start - base + k);
    }
  *out = m;
  return true;
}

static coverage
build (mask_t s, uint64_t base, unsigned U)
{
  coverage c;
  // add the maximal runs in a scrambled order (exercises front/back paths)
  std::vector <std::pair <unsigned, unsigned>> runs;
  for (unsigned i = 0; i < U; )
    if (s >> i & 1)
      {
	unsigned j = i;
	while (j < U && (s >> j & 1))
	  ++j;
	runs.push_back ({i, j});
	i = j;
      }
    else
      ++i;
  for (size_t k = 0; k < runs.size (); k += 2)
    c.add (base + runs[k].first, runs[k].second - runs[k].first);
  for (size_t k = 1; k < runs.size (); k += 2)
    c.add (base + runs[k].first, runs[k].second - runs[k].first);
  return c;
}

static mask_t
interval (unsigned a, unsigned b)
{
  mask_t m = 0;
  for (unsigned i = a; i < b; ++i)
    m |= (mask_t) 1 << i;
  return m;
}

struct holes_ctx { uint64_t base; mask_t m; bool ok; };
static bool
hole_cb (uint64_t start, uint64_t length, void *d)
{
  holes_ctx *c = (holes_ctx *) d;
  if (length == 0) { c->ok = false; return true; }
  for (uint64_t k = 0; k < length; ++k)
    {
      uint64_t bit = start - c->base + k;
      if (bit >= 64) { c->ok = false; return true; }
      c->m |= (mask_t) 1 << bit;
    }
  return true;
}

static void
check_queries (coverage const &c, mask_t s, uint64_t base, unsigned U)
{
  for (unsigned a = 0; a < U; ++a)
    for (unsigned b = a + 1; b <= U; ++b)
      {
	mask_t iv = interval (a, b);
	++n_checks;
	bool cov = c.is_covered (base + a, b - a);
	if (cov != ((s & iv) == iv))
	  report ("is_covered", base, s, "is_covered", a, b, cov, (s & iv) == iv);
	++n_checks;
	bool ovl = c.is_overlap (base + a, b - a);
	if (ovl != ((s & iv) != 0))
	  report ("is_overlap", base, s, "is_overlap", a, b, ovl, (s & iv) != 0);
	++n_checks;
	coverage x = c.intersect (base + a, b - a);
	mask_t xm;
	if (! to_mask (x, base, U, &xm))
	  report ("intersect not canonical", base, s, "intersect", a, b, 0, s & iv);
	else if (xm != (s & iv))
	  report ("intersect", base, s, "intersect", a, b, xm, s & iv);
      }
  // holes over the whole universe
  ++n_checks;
  holes_ctx hc {base, 0, true};
  c.find_holes (base, U, hole_cb, &hc);
  mask_t all = interval (0, U);
  if (! hc.ok || hc.m != (all & ~s))
    report ("find_holes", base, s, "find_holes", 0, U, hc.m, all & ~s);
}

static int
exhaustive (unsigned U, uint64_t base)
{
  mask_t all = interval (0, U);
  std::vector <coverage> states;
  for (mask_t s = 0; s <= all; ++s)
    {
      coverage c = build (s, base, U);
      mask_t m;
      ++n_checks;
      if (! to_mask (c, base, U, &m))
	report ("build not canonical", base, s, "build", 0, 0, 0, s);
      else if (m != s)
	report ("build", base, s, "build", 0, 0, m, s);
      states.push_back (c);
    }

  for (mask_t s = 0; s <= all; ++s)
    {
      coverage const &c = states[s];
      check_queries (c, s, base, U);
      for (unsigned a = 0; a < U; ++a)
	for (unsigned b = a; b <= U; ++b)	// b == a: zero-length no-op
	  {
	    mask_t iv = interval (a, b);
	    {
	      coverage x = c;
	      x.add (base + a, b - a);
	      mask_t m;
	      ++n_trans;
	      if (! to_mask (x, base, U, &m))
		report ("add not canonical", base, s, "add", a, b, 0, s | iv);
	      else if (m != (s | iv))
		report ("add", base, s, "add", a, b, m, s | iv);
	      // equal sets compare equal however they were built
	      else if (! (x == states[m]))
		report ("== after add", base, s, "add", a, b, m, m);
	    }
	    {
	      coverage x = c;
	      bool r = x.remove (base + a, b - a);
	      mask_t m;
	      ++n_trans;
	      if (! to_mask (x, base, U, &m))
		report ("remove not canonical", base, s, "remove", a, b, 0, s & ~iv);
	      else if (m != (s & ~iv))
		report ("remove", base, s, "remove", a, b, m, s & ~iv);
	      else if (! (x == states[m]))
		report ("== after remove", base, s, "remove", a, b, m, m);
	      if (r != ((s & iv) != 0))
		report ("remove return", base, s, "remove", a, b, r, (s & iv) != 0);
	    }
	  }
    }

  for (mask_t s = 0; s <= all; ++s)
    for (mask_t t = 0; t <= all; ++t)
      {
	++n_pairs;
	mask_t m;
	coverage u = states[s] + states[t];
	if (! to_mask (u, base, U, &m) || m != (s | t) || ! (u == states[s | t]))
	  report ("add_all", base, s, "add_all", 0, 0, m, s | t);
	coverage d = states[s] - states[t];
	if (! to_mask (d, base, U, &m) || m != (s & ~t)
	    || ! (d == states[s & ~t]))
	  report ("remove_all", base, s, "remove_all", 0, 0, m, s & ~t);
	if ((states[s] == states[t]) != (s == t))
	  report ("==", base, s, "==", 0, 0, states[s] == states[t], s == t);
      }
  return 0;
}

static int
randomised (unsigned long seed, unsigned long nseq, unsigned len)
{
  std::mt19937_64 rng (seed);
  static const uint64_t bases[] = {
    0, 1, 0xffffffffull - 30, 0x100000000ull - 7, 0x7fffffffffffffffull - 31,
    0x8000000000000000ull - 5, 0xffffffffffffffffull - 66, 0xdeadbeef00ull };
  for (unsigned long q = 0; q < nseq; ++q)
    {
      uint64_t base = bases[rng () % 8];
      if (rng () % 4 == 0)
	base = rng () % (0xffffffffffffffffull - 70);
      unsigned U = 64;
      coverage c;
      mask_t s = 0;
      for (unsigned i = 0; i < len; ++i)
	{
	  unsigned a = rng () % U, b = rng () % (U + 1);
	  if (a > b)
	    std::swap (a, b);
	  if (rng () % 3 == 0 && b - a > 6)
	    b = a + rng () % 6;
	  mask_t iv = b - a == 64 ? ~(mask_t) 0 : (((mask_t) 1 << (b - a)) - 1) << a;
	  unsigned k = rng () % 10;
	  mask_t m;
	  ++n_trans;
	  if (k < 5)
	    {
	      c.add (base + a, b - a);
	      s |= iv;
	    }
	  else if (k < 9)
	    {
	      bool r = c.remove (base + a, b - a);
	      if (r != ((s & iv) != 0))
		report ("remove return", base, s, "remove", a, b, r, (s & iv) != 0);
	      s &= ~iv;
	    }
	  else
	    {
	      ++n_checks;
	      if (b > a)
		{
		  bool cov = c.is_covered (base + a, b - a);
		  if (cov != ((s & iv) == iv))
		    report ("is_covered", base, s, "is_covered", a, b, cov, (s & iv) == iv);
		  bool ovl = c.is_overlap (base + a, b - a);
		  if (ovl != ((s & iv) != 0))
		    report ("is_overlap", base, s, "is_overlap", a, b, ovl, (s & iv) != 0);
		  coverage x = c.intersect (base + a, b - a);
		  mask_t xm;
		  if (! to_mask (x, base, U, &xm) || xm != (s & iv))
		    report ("intersect", base, s, "intersect", a, b, xm, s & iv);
		}
	    }
	  if (! to_mask (c, base, U, &m))
	    {
	      report ("not canonical", base, s, k < 5 ? "add" : "remove", a, b, 0, s);
	      break;
	    }
	  else if (m != s)
	    {
	      report ("wrong set", base, s, k < 5 ? "add" : "remove", a, b, m, s);
	      break;
	    }
	}
    }
  return 0;
}

int
main (int argc, char **argv)
{
  if (argc >= 4 && strcmp (argv[1], "exhaustive") == 0)
    exhaustive (atoi (argv[2]), strtoull (argv[3], nullptr, 0));
  else if (argc >= 5 && strcmp (argv[1], "random") == 0)
    randomised (strtoul (argv[2], nullptr, 0), strtoul (argv[3], nullptr, 0),
		atoi (argv[4]));
  else
    return 2;

  printf ("{\"checks\":%llu,\"transitions\":%llu,\"pairs\":%llu,\"nbad\":%llu,\"bad\":[",
	  n_checks, n_trans, n_pairs, n_bad);
  for (size_t i = 0; i < bad.size (); ++i)
    printf ("%s%s", i ? "," : "", bad[i].c_str ());
  printf ("]}\n");
  return 0;
}
